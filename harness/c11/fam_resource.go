package main

import (
	"errors"
	"google.golang.org/protobuf/types/known/fieldmaskpb"
	"io"
	"math/rand"
	"strings"
	"time"

	"google.golang.org/protobuf/proto"

	"github.com/smart-core-os/sc-golang/internal/testproto"
	"github.com/smart-core-os/sc-golang/internal/verif/vk"
	"github.com/smart-core-os/sc-golang/pkg/resource"
)

var tatGen = vk.GenOpts{Density: 25, MaxDepth: 2, MaxList: 3}

// mask paths that are valid for TestAllTypes both as read masks and as update masks
var tatPaths = []string{
	"default_int32", "default_string", "default_bytes", "default_double", "default_nested_message",
	"default_nested_message.a", "default_foreign_message", "default_foreign_message.c", "repeated_int32",
	"repeated_string", "repeated_foreign_message", "map_string_string", "map_string_nested_message", "optional_int32",
	"optional_string", "default_well_known", "default_well_known.default_timestamp", "oneof_default_int32",
	"default_nested_enum",
}

// sharedWriteOpts are option values built once and handed to many concurrent writes on different resources and
// goroutines, the way a program keeps a package-level option: the library may only read them. The paths are
// deliberately unsorted and overlapping.
var sharedWriteOpts = []struct {
	name string
	opt  resource.WriteOption
}{
	{"umask-shared", resource.WithUpdatePaths("default_string", "default_int32", "default_bytes")},
	{"umask-shared", resource.WithUpdateMask(&fieldmaskpb.FieldMask{Paths: []string{"optional_string", "default_nested_message.a", "default_nested_message", "default_double"}})},
	{"reset-shared", resource.WithResetPaths("repeated_string", "default_int32")},
	{"morew-shared", resource.WithMoreWritablePaths("optional_int32", "default_bytes")},
}

func pickPaths(rng *vk.Rand, pool []string, max int) []string {
	n := rng.Range(1, max)
	out := make([]string, 0, n)
	for i := 0; i < n; i++ {
		out = append(out, pool[rng.Intn(len(pool))])
	}
	return out
}

func genTAT(rng *vk.Rand) *testproto.TestAllTypes {
	return vk.GenMessage(rng, &testproto.TestAllTypes{}, tatGen).(*testproto.TestAllTypes)
}

var errCheck = errors.New("expected check says no")

// readerComparer is a resource.Comparer that only reads both messages.
func readerComparer() resource.Comparer {
	return resource.ComparerFunc(func(x, y proto.Message) bool { return readMsg(x) == readMsg(y) })
}

// writeOpts builds a random set of write options for message type TestAllTypes. Every callback is a pure reader;
// the ones the library runs on the caller's goroutine add to the goroutine-local sink captured through gp.
func writeOpts(rng *vk.Rand, gp **G, names *[]string) []resource.WriteOption {
	var opts []resource.WriteOption
	add := func(n string, o resource.WriteOption) { opts = append(opts, o); *names = append(*names, n) }
	switch rng.Intn(6) {
	case 0, 1:
		add("umask", resource.WithUpdatePaths(pickPaths(rng, tatPaths, 3)...))
	case 2:
		so := sharedWriteOpts[rng.Intn(2)]
		add(so.name, so.opt)
	}
	if rng.Chance(1, 8) {
		so := sharedWriteOpts[2+rng.Intn(2)]
		add(so.name, so.opt)
	}
	if rng.Chance(1, 3) {
		add("before", resource.InterceptBefore(func(old, new proto.Message) { (*gp).sink += readMsg(old) + readMsg(new) }))
	}
	if rng.Chance(1, 3) {
		add("after", resource.InterceptAfter(func(old, new proto.Message) { (*gp).sink += readMsg(old) + readMsg(new) }))
	}
	if rng.Chance(1, 4) {
		fail := rng.Chance(1, 4)
		add("check", resource.WithExpectedCheck(func(old proto.Message) error {
			(*gp).sink += readMsg(old)
			if fail {
				return errCheck
			}
			return nil
		}))
	}
	if rng.Chance(1, 8) {
		add("expval", resource.WithExpectedValue(genTAT(rng)))
	}
	if rng.Chance(1, 5) {
		add("wtime", resource.WithWriteTime(time.Unix(int64(rng.Range(1, 100000)), 0)))
	}
	if rng.Chance(1, 6) {
		add("reset", resource.WithResetPaths(pickPaths(rng, tatPaths, 2)...))
	}
	if rng.Chance(1, 6) {
		add("allw", resource.WithAllFieldsWritable())
	}
	if rng.Chance(1, 6) {
		add("morew", resource.WithMoreWritablePaths(pickPaths(rng, tatPaths, 2)...))
	}
	return opts
}

func readOpts(rng *vk.Rand, pull bool, names *[]string) []resource.ReadOption {
	var opts []resource.ReadOption
	if rng.Chance(1, 3) {
		opts = append(opts, resource.WithReadPaths(&testproto.TestAllTypes{}, pickPaths(rng, tatPaths, 3)...))
		*names = append(*names, "rmask")
	}
	if pull {
		if rng.Bool() {
			opts = append(opts, resource.WithUpdatesOnly(true))
			*names = append(*names, "uo")
		}
		if rng.Bool() {
			opts = append(opts, resource.WithBackpressure(true))
			*names = append(*names, "bp")
		}
	}
	return opts
}

func readValueChange(c *resource.ValueChange) uint64 {
	s := readMsg(c.Value) + readTime(c.ChangeTime)
	if c.SeedValue {
		s++
	}
	if c.LastSeedValue {
		s += 2
	}
	return s
}

func readCollectionChange(c *resource.CollectionChange) uint64 {
	s := readMsg(c.OldValue) + readMsg(c.NewValue) + readTime(c.ChangeTime) + uint64(len(c.Id)) + uint64(c.ChangeType)
	if c.SeedValue {
		s++
	}
	if c.LastSeedValue {
		s += 2
	}
	return s
}

// spread deals nOps operations over the goroutines of p by calling gen(goroutine) for each.
func spread(rng *vk.Rand, p *Prog, nOps int, gen func(gi int)) {
	for i := 0; i < nOps; i++ {
		gen(i % len(p.gs))
	}
}

// ---- resource.Value ----------------------------------------------------------------------------------------

func buildValue(rng *vk.Rand, nOps int) *Prog {
	p := newProg("value", rng, rng.Range(4, 16), 6)
	var ropts []resource.Option
	var fl []string
	if rng.Chance(3, 4) {
		ropts = append(ropts, resource.WithInitialValue(genTAT(rng)))
		fl = append(fl, "init")
	}
	switch rng.Intn(4) {
	case 0:
		ropts = append(ropts, resource.WithNoDuplicates())
		fl = append(fl, "nodup")
	case 1:
		ropts = append(ropts, resource.WithEquivalence(readerComparer()))
		fl = append(fl, "cmp")
	}
	if rng.Chance(1, 3) {
		if rng.Bool() {
			ropts = append(ropts, resource.WithWritablePaths(&testproto.TestAllTypes{}, pickPaths(rng, tatPaths, 6)...))
		} else {
			// a mask as an owner builds it incrementally (or as it comes off the wire): its slice has room to spare
			ropts = append(ropts, resource.WithWritableFields(&fieldmaskpb.FieldMask{Paths: append(make([]string, 0, 16), pickPaths(rng, tatPaths, 6)...)}))
		}
		fl = append(fl, "writable")
	}
	p.flavor = strings.Join(fl, "+")
	v := resource.NewValue(ropts...) // without "init" the Value holds a nil message until the first Set

	spread(rng, p, nOps, func(gi int) {
		switch w := rng.Intn(100); {
		case w < 30:
			var names []string
			opts := readOpts(rng, false, &names)
			p.noteCombo("Value.Get", names)
			p.add(gi, "Value.Get", func(g *G) { g.sink += readMsg(v.Get(opts...)) })
		case w < 75:
			msg := genTAT(rng)
			var names []string
			gp := new(*G)
			opts := writeOpts(rng, gp, &names)
			p.noteEach("Value.Set", names)
			p.add(gi, "Value.Set", func(g *G) {
				*gp = g
				res, err := v.Set(msg, opts...)
				g.err(err)
				g.sink += readMsg(res)
			})
		case w < 88:
			var names []string
			opts := readOpts(rng, true, &names)
			p.noteCombo("Value.Pull", names)
			k, pace := rng.Intn(6), rng.Intn(4)
			p.add(gi, "Value.Pull", func(g *G) {
				consume(g, v.Pull(g.ctx(k), opts...), pace, readValueChange)
			})
		case w < 97:
			k := rng.Intn(6)
			p.add(gi, "cancel", func(g *G) { g.cancel(k) })
		default:
			p.add(gi, "Value.Clock", func(g *G) { g.sink += readTime(v.Clock().Now()) })
		}
	})
	return p
}

// ---- resource.Collection -----------------------------------------------------------------------------------

var colIDs = []string{"a", "B", "c", "Dd", "e", "F"}

// plainReader is an io.Reader without any synchronisation of its own, like the *rand.Rand the library uses by
// default. resource.WithRNG documents no locking requirement for the caller.
type plainReader struct{ r *vk.Rand }

func (p plainReader) Read(b []byte) (int, error) { return p.r.Read(b) }

func buildCollection(rng *vk.Rand, nOps int) *Prog {
	p := newProg("collection", rng, rng.Range(4, 16), 6)
	var ropts []resource.Option
	var fl []string
	if rng.Bool() {
		ropts = append(ropts, resource.WithIDInterceptor(strings.ToLower))
		fl = append(fl, "idicpt")
	}
	switch rng.Intn(3) {
	case 0:
		var rd io.Reader = plainReader{rng.Fork()}
		ropts = append(ropts, resource.WithRNG(rd))
		fl = append(fl, "rng-reader")
	case 1:
		ropts = append(ropts, resource.WithRNG(rand.New(rand.NewSource(int64(rng.Uint64()>>1)))))
		fl = append(fl, "rng-mathrand")
	default:
		fl = append(fl, "rng-default")
	}
	switch rng.Intn(4) {
	case 0:
		ropts = append(ropts, resource.WithNoDuplicates())
		fl = append(fl, "nodup")
	case 1:
		ropts = append(ropts, resource.WithEquivalence(readerComparer()))
		fl = append(fl, "cmp")
	}
	for i, n := 0, rng.Intn(4); i < n; i++ {
		id := colIDs[i]
		if len(fl) > 0 && fl[0] == "idicpt" {
			id = strings.ToLower(id)
		}
		ropts = append(ropts, resource.WithInitialRecord(id, genTAT(rng)))
	}
	p.flavor = strings.Join(fl, "+")
	c := resource.NewCollection(ropts...)

	include := func(rng *vk.Rand) resource.FilterFunc {
		mod := uint64(rng.Range(2, 3))
		return func(id string, item proto.Message) bool { return (readMsg(item)+uint64(len(id)))%mod != 0 }
	}
	// id picks a pool id at build time or, at run time, an id the library generated for this goroutine
	type idf func(g *G) string
	pickID := func() idf {
		if rng.Chance(1, 4) {
			return func(g *G) string {
				if len(g.ids) > 0 {
					return g.ids[g.rng.Intn(len(g.ids))]
				}
				return "a"
			}
		}
		id := colIDs[rng.Intn(len(colIDs))]
		return func(*G) string { return id }
	}
	genOpts := func(gp **G) []resource.WriteOption {
		return []resource.WriteOption{
			resource.WithGenIDIfAbsent(),
			resource.WithIDCallback(func(id string) { (*gp).ids = append((*gp).ids, id) }),
			resource.WithCreatedCallback(func() { (*gp).sink++ }),
		}
	}

	spread(rng, p, nOps, func(gi int) {
		switch w := rng.Intn(100); {
		case w < 12:
			var names []string
			opts := readOpts(rng, false, &names)
			p.noteCombo("Collection.Get", names)
			id := pickID()
			p.add(gi, "Collection.Get", func(g *G) {
				m, _ := c.Get(id(g), opts...)
				g.sink += readMsg(m)
			})
		case w < 24:
			var names []string
			opts := readOpts(rng, false, &names)
			if rng.Chance(1, 3) {
				opts = append(opts, resource.WithInclude(include(rng)))
				names = append(names, "include")
			}
			p.noteCombo("Collection.List", names)
			p.add(gi, "Collection.List", func(g *G) {
				for _, m := range c.List(opts...) {
					g.sink += readMsg(m)
				}
			})
		case w < 44:
			msg := genTAT(rng)
			var names []string
			gp := new(*G)
			opts := writeOpts(rng, gp, &names)
			p.noteEach("Collection.Add", names)
			gen := rng.Chance(1, 2)
			id := pickID()
			if gen {
				opts = append(opts, genOpts(gp)...)
			}
			name := "Collection.Add"
			if gen {
				name = "Collection.Add(genid)"
			}
			p.add(gi, name, func(g *G) {
				*gp = g
				i := ""
				if !gen {
					i = id(g)
				}
				res, err := c.Add(i, msg, opts...)
				g.err(err)
				g.sink += readMsg(res)
			})
		case w < 62:
			msg := genTAT(rng)
			var names []string
			gp := new(*G)
			opts := writeOpts(rng, gp, &names)
			p.noteEach("Collection.Update", names)
			if rng.Bool() {
				opts = append(opts, resource.WithCreateIfAbsent())
			}
			gen := rng.Chance(1, 5)
			if gen {
				opts = append(opts, resource.WithCreateIfAbsent())
				opts = append(opts, genOpts(gp)...)
			}
			id := pickID()
			name := "Collection.Update"
			if gen {
				name = "Collection.Update(genid)"
			}
			p.add(gi, name, func(g *G) {
				*gp = g
				i := ""
				if !gen {
					i = id(g)
				}
				res, err := c.Update(i, msg, opts...)
				g.err(err)
				g.sink += readMsg(res)
			})
		case w < 74:
			var opts []resource.WriteOption
			gp := new(*G)
			if rng.Bool() {
				opts = append(opts, resource.WithAllowMissing(true))
			}
			if rng.Chance(1, 4) {
				fail := rng.Chance(1, 4)
				opts = append(opts, resource.WithExpectedCheck(func(old proto.Message) error {
					(*gp).sink += readMsg(old)
					if fail {
						return errCheck
					}
					return nil
				}))
			}
			if rng.Chance(1, 8) {
				opts = append(opts, resource.WithExpectedValue(genTAT(rng)))
			}
			id := pickID()
			p.add(gi, "Collection.Delete", func(g *G) {
				*gp = g
				res, err := c.Delete(id(g), opts...)
				g.err(err)
				g.sink += readMsg(res)
			})
		case w < 83:
			var names []string
			opts := readOpts(rng, true, &names)
			if rng.Chance(1, 3) {
				opts = append(opts, resource.WithInclude(include(rng)))
				names = append(names, "include")
			}
			p.noteCombo("Collection.Pull", names)
			k, pace := rng.Intn(6), rng.Intn(4)
			p.add(gi, "Collection.Pull", func(g *G) {
				consume(g, c.Pull(g.ctx(k), opts...), pace, readCollectionChange)
			})
		case w < 90:
			var names []string
			opts := readOpts(rng, true, &names)
			p.noteCombo("Collection.PullID", names)
			k, pace := rng.Intn(6), rng.Intn(4)
			id := pickID()
			p.add(gi, "Collection.PullID", func(g *G) {
				consume(g, c.PullID(g.ctx(k), id(g), opts...), pace, readValueChange)
			})
		case w < 98:
			k := rng.Intn(6)
			p.add(gi, "cancel", func(g *G) { g.cancel(k) })
		default:
			p.add(gi, "Collection.Clock", func(g *G) { g.sink += readTime(c.Clock().Now()) })
		}
	})
	return p
}
