# race_pairs.py <scratch dir kept with ./check C11 --keep>: groups the race reports of race.* by (access kind, innermost sc-golang
# function, outermost sc-golang function) of both stacks - separates root causes that share one driver key.
import re,glob,sys,collections
d=sys.argv[1]
cnt=collections.Counter(); ex={}
for fn in glob.glob(d+'/race.*'):
    for blk in open(fn,errors='replace').read().split('=================='):
        if 'WARNING: DATA RACE' not in blk: continue
        parts=re.split(r"\n(?=(?:Previous )?(?:[Rr]ead|[Ww]rite|atomic [a-z]+) (?:at|by) )", blk)
        fns=[]
        for p in parts:
            if re.match(r"(?:Previous )?(?:[Rr]ead|[Ww]rite|atomic)", p.strip()):
                p=re.split(r"\n\nGoroutine ", p)[0]
                kind=p.strip().split(' at ')[0].replace('Previous ','').lower()
                inner=None; entry=None
                for line in p.splitlines():
                    line=line.strip()
                    m=re.match(r"^(\S+)\(", line)
                    if not m: continue
                    f=m.group(1)
                    if 'sc-golang/' in f and '/internal/verif/' not in f and '/internal/verifhook' not in f:
                        f=f.replace('github.com/smart-core-os/sc-golang/','')
                        if inner is None: inner=f
                        entry=f
                fns.append((kind,inner,entry))
        k=tuple(sorted(map(str,fns)))
        cnt[k]+=1; ex.setdefault(k,blk)
for k,c in cnt.most_common():
    print(c,k)
