package main

import (
	"context"
	"errors"
	"fmt"
	"io"
	"runtime"
	"time"

	"github.com/smart-core-os/sc-api/go/traits"
	"google.golang.org/grpc"
	"google.golang.org/grpc/codes"
	"google.golang.org/grpc/metadata"
	"google.golang.org/grpc/status"
	"google.golang.org/protobuf/types/known/fieldmaskpb"

	"github.com/smart-core-os/sc-golang/internal/testproto"
	"github.com/smart-core-os/sc-golang/internal/verif/vk"
	"github.com/smart-core-os/sc-golang/pkg/router"
	"github.com/smart-core-os/sc-golang/pkg/trait/onoffpb"
	"github.com/smart-core-os/sc-golang/pkg/wrap"
)

// testSrv is a stateless TestApi server. Every handler stays within gRPC's server-side contract: headers are set
// before the first message, trailers before returning, one goroutine sends and (for bidi "split") another receives.
// What a handler does is steered by the request's msg / simulate_error fields, never by shared harness state.
type testSrv struct {
	testproto.UnimplementedTestApiServer
}

func md(kv ...string) metadata.MD { return metadata.Pairs(kv...) }

func simErr(s string) error {
	if s == "" {
		return nil
	}
	return status.Error(codes.FailedPrecondition, s)
}

func (testSrv) Unary(ctx context.Context, req *testproto.UnaryRequest) (*testproto.UnaryResponse, error) {
	_ = grpc.SetHeader(ctx, md("h", req.Msg))
	if len(req.Msg)%2 == 0 {
		_ = grpc.SendHeader(ctx, md("h2", "sent"))
	}
	_ = grpc.SetTrailer(ctx, md("t", req.Msg))
	if err := simErr(req.SimulateError); err != nil {
		return nil, err
	}
	return &testproto.UnaryResponse{Msg: "re:" + req.Msg}, nil
}

func (testSrv) ServerStream(req *testproto.ServerStreamRequest, s grpc.ServerStreamingServer[testproto.ServerStreamResponse]) error {
	_ = s.SetHeader(md("h", "ss"))
	if req.NumRes%3 == 1 {
		// a helper goroutine of the handler keeps adding header metadata while the handler itself sends the headers
		// (explicitly or with the first message): SetHeader simply fails once they are out, it must not race
		stop, done := make(chan struct{}), make(chan struct{})
		go func() {
			defer close(done)
			for i := 0; ; i++ {
				select {
				case <-stop:
					return
				default:
				}
				_ = s.SetHeader(md("hx", fmt.Sprint(i)))
				if i%8 == 7 {
					runtime.Gosched()
				}
			}
		}()
		defer func() { close(stop); <-done }()
	}
	if req.NumRes%3 == 2 {
		// a goroutine the handler leaves behind keeps adding trailer metadata for a little while after the call has
		// ended: the client was given the trailer as it was when the call ended, reading it must not race with this
		_ = s.SendHeader(md("h2", "sent-early"))
		go func() {
			for i := 0; i < 400; i++ {
				s.SetTrailer(md("tx", fmt.Sprint(i)))
				if i%4 == 3 {
					runtime.Gosched()
				}
			}
		}()
	}
	if req.NumRes%2 == 0 {
		_ = s.SendHeader(md("h2", "sent"))
	}
	for i := int32(0); i < req.NumRes; i++ {
		if err := s.Send(&testproto.ServerStreamResponse{Counter: i}); err != nil {
			s.SetTrailer(md("t", "send-failed"))
			return err
		}
	}
	s.SetTrailer(md("t", "done"))
	return simErr(req.SimulateError)
}

func (testSrv) ClientStream(s grpc.ClientStreamingServer[testproto.ClientStreamRequest, testproto.ClientStreamResponse]) error {
	_ = s.SetHeader(md("h", "cs"))
	n, linger := 0, false
	for {
		req, err := s.Recv()
		if err == io.EOF {
			break
		}
		if err != nil {
			s.SetTrailer(md("t", "recv-failed"))
			return err
		}
		n += len(req.Msg)
		if req.Msg == "linger" {
			linger = true
		}
		if e := simErr(req.SimulateError); e != nil {
			s.SetTrailer(md("t", "sim"))
			return e
		}
	}
	s.SetTrailer(md("t", "done"))
	err := s.SendAndClose(&testproto.ClientStreamResponse{Msg: fmt.Sprint(n)})
	if err == nil && linger {
		// post-response work that lasts until the call ends (gRPC allows a handler to go on after SendAndClose);
		// the client of such a call always cancels or has a deadline
		<-s.Context().Done()
	}
	return err
}

func (testSrv) BidiStream(s grpc.BidiStreamingServer[testproto.BidiStreamRequest, testproto.BidiStreamResponse]) error {
	_ = s.SetHeader(md("h", "bidi"))
	first, err := s.Recv()
	if err == io.EOF {
		s.SetTrailer(md("t", "empty"))
		return nil
	}
	if err != nil {
		return err
	}
	if first.Msg == "split" {
		// receive on one goroutine, send on another (allowed: one sender, one receiver)
		recvDone := make(chan error, 1)
		go func() {
			for {
				_, err := s.Recv()
				if err != nil {
					recvDone <- err
					return
				}
			}
		}()
		var sendErr error
		for i := 0; i < 3 && sendErr == nil; i++ {
			sendErr = s.Send(&testproto.BidiStreamResponse{Msg: fmt.Sprint("push", i)})
		}
		rerr := <-recvDone
		s.SetTrailer(md("t", "split"))
		if rerr != io.EOF {
			return rerr
		}
		return sendErr
	}
	req := first
	for {
		if e := simErr(req.SimulateError); e != nil {
			s.SetTrailer(md("t", "sim"))
			return e
		}
		if err := s.Send(&testproto.BidiStreamResponse{Msg: "re:" + req.Msg}); err != nil {
			return err
		}
		req, err = s.Recv()
		if err == io.EOF {
			s.SetTrailer(md("t", "eof"))
			return nil
		}
		if err != nil {
			return err
		}
	}
}

func readMD(m metadata.MD) uint64 {
	s := uint64(len(m))
	for k, vs := range m {
		s += uint64(len(k))
		for _, v := range vs {
			s += uint64(len(v))
		}
	}
	return s
}

// afterEnd reads what gRPC allows a client to read once a stream has ended (RecvMsg returned an error).
func afterEnd(g *G, cs grpc.ClientStream) {
	h, _ := cs.Header()
	g.sink += readMD(h) + readMD(cs.Trailer())
}

func yields(n int) {
	for i := 0; i < n; i++ {
		runtime.Gosched()
	}
}

func buildWrap(rng *vk.Rand, nOps int) *Prog {
	if rng.Chance(1, 3) {
		return buildWrapRouted(rng, nOps)
	}
	p := newProg("wrap", rng, rng.Range(4, 12), 1)
	p.flavor = "testapi"
	conn := wrap.ServerToClient(testproto.TestApi_ServiceDesc, testSrv{})
	client := testproto.NewTestApiClient(conn)
	// callCtx gives a call its own context: plain, or with a short deadline (wall clock only perturbs the schedule)
	callCtx := func(deadlineUS int) (context.Context, context.CancelFunc) {
		if deadlineUS > 0 {
			return context.WithTimeout(context.Background(), time.Duration(deadlineUS)*time.Microsecond)
		}
		return context.WithCancel(context.Background())
	}
	// canceller cancels from a second goroutine after k yields, while the caller is inside a blocking call; the
	// returned func joins it
	canceller := func(cancel context.CancelFunc, k int) (join func()) {
		done := make(chan struct{})
		go func() {
			defer close(done)
			yields(k)
			cancel()
		}()
		return func() { <-done }
	}
	spread(rng, p, nOps/3+1, func(gi int) {
		serr := ""
		if rng.Chance(1, 5) {
			serr = "boom"
		}
		// cancelAt: -1 never, otherwise the call's context is cancelled after that many messages
		cancelAt := -1
		if rng.Chance(1, 3) {
			cancelAt = rng.Intn(3)
		}
		early := rng.Chance(1, 4) // ask for the header before anything was received
		ylds := rng.Intn(3)
		// end-of-call variants for calls with a single response: the client goes away (cancel from a second goroutine
		// after k yields, or a deadline) while it waits for / right after it got the response
		k, deadlineUS := rng.Intn(24), 0
		if rng.Chance(1, 3) {
			deadlineUS = rng.Range(20, 1500)
		}
		switch w := rng.Intn(130); {
		case w >= 100 && w < 118:
			n := rng.Range(1, 3)
			name := "wrap.ClientStream(linger,cancel)"
			if deadlineUS > 0 {
				name = "wrap.ClientStream(linger,deadline)"
			}
			p.add(gi, name, func(g *G) {
				ctx, cancel := callCtx(deadlineUS)
				defer cancel()
				st, err := client.ClientStream(ctx)
				if err != nil {
					g.errs++
					return
				}
				for i := 0; i < n; i++ {
					if err := st.Send(&testproto.ClientStreamRequest{Msg: "linger"}); err != nil {
						g.errs++
						break
					}
				}
				// the handler answers and then stays until the call ends, so somebody has to end it
				join := func() {}
				if deadlineUS == 0 {
					join = canceller(cancel, k)
				}
				res, err := st.CloseAndRecv()
				g.err(err)
				g.sink += readMsg(res)
				join()
				afterEnd(g, st)
			})
		case w >= 118 && w < 124:
			msg := rng.PickStr("a", "bb", "ccc", "dddd")
			name := "wrap.Unary(concurrent-cancel)"
			if deadlineUS > 0 {
				name = "wrap.Unary(deadline)"
			}
			p.add(gi, name, func(g *G) {
				ctx, cancel := callCtx(deadlineUS)
				defer cancel()
				join := func() {}
				if deadlineUS == 0 {
					join = canceller(cancel, k)
				}
				var h, t metadata.MD
				res, err := client.Unary(ctx, &testproto.UnaryRequest{Msg: msg, SimulateError: serr}, grpc.Header(&h), grpc.Trailer(&t))
				g.err(err)
				join()
				g.sink += readMsg(res) + readMD(h) + readMD(t)
			})
		case w >= 124:
			msg := rng.PickStr("a", "bb", "ccc", "dddd")
			concurrent := rng.Bool()
			name := "wrap.UnaryAsStream"
			p.add(gi, name, func(g *G) {
				ctx, cancel := callCtx(deadlineUS)
				defer cancel()
				// a unary method driven through NewStream, as generic proxies do: send, close, receive once
				cs, err := conn.NewStream(ctx, &grpc.StreamDesc{}, testproto.TestApi_Unary_FullMethodName)
				if err != nil {
					g.errs++
					return
				}
				if err := cs.SendMsg(&testproto.UnaryRequest{Msg: msg, SimulateError: serr}); err != nil {
					g.errs++
				}
				_ = cs.CloseSend()
				join := func() {}
				if concurrent && deadlineUS == 0 {
					join = canceller(cancel, k)
				}
				res := &testproto.UnaryResponse{}
				err = cs.RecvMsg(res)
				g.err(errIfNotEOF(err))
				join()
				g.sink += readMsg(res)
				if err != nil {
					afterEnd(g, cs)
				}
			})
		case w < 25:
			msg := rng.PickStr("a", "bb", "ccc", "dddd")
			pre := cancelAt == 0
			p.add(gi, "wrap.Unary", func(g *G) {
				ctx, cancel := context.WithCancel(context.Background())
				defer cancel()
				if pre {
					cancel()
				}
				var h, t metadata.MD
				res, err := client.Unary(ctx, &testproto.UnaryRequest{Msg: msg, SimulateError: serr}, grpc.Header(&h), grpc.Trailer(&t))
				g.err(err)
				g.sink += readMsg(res) + readMD(h) + readMD(t)
			})
		case w < 28:
			// many short server-streaming calls whose handler has a helper goroutine adding header metadata while the
			// handler sends the headers; the client reads the headers as soon as they are there and again at the end
			reps := rng.Range(20, 60)
			p.add(gi, "wrap.ServerStream/header-race", func(g *G) {
				for k := 0; k < reps; k++ {
					ctx, cancel := context.WithCancel(context.Background())
					st, err := client.ServerStream(ctx, &testproto.ServerStreamRequest{NumRes: []int32{1, 4, 2, 5}[k%4]})
					if err != nil {
						g.errs++
						cancel()
						continue
					}
					h, _ := st.Header()
					g.sink += readMD(h)
					for {
						res, err := st.Recv()
						if err != nil {
							break
						}
						g.sink += readMsg(res)
					}
					h, _ = st.Header()
					g.sink += readMD(h) + readMD(st.Trailer())
					runtime.Gosched()
					g.sink += readMD(st.Trailer()) // once more, while a left-behind goroutine of the handler may still be busy
					cancel()
				}
			})
		case w < 50:
			n := int32(rng.Range(0, 5))
			p.add(gi, "wrap.ServerStream", func(g *G) {
				ctx, cancel := context.WithCancel(context.Background())
				defer cancel()
				st, err := client.ServerStream(ctx, &testproto.ServerStreamRequest{NumRes: n, SimulateError: serr})
				if err != nil {
					g.errs++
					return
				}
				if early {
					h, _ := st.Header()
					g.sink += readMD(h)
				}
				for i := 0; ; i++ {
					if i == cancelAt {
						cancel()
					}
					res, err := st.Recv()
					if err != nil {
						g.err(errIfNotEOF(err))
						break
					}
					g.sink += readMsg(res)
					yields(ylds)
				}
				afterEnd(g, st)
			})
		case w < 70:
			n := rng.Range(0, 4)
			p.add(gi, "wrap.ClientStream", func(g *G) {
				ctx, cancel := context.WithCancel(context.Background())
				defer cancel()
				st, err := client.ClientStream(ctx)
				if err != nil {
					g.errs++
					return
				}
				for i := 0; i < n; i++ {
					if i == cancelAt {
						cancel()
					}
					req := &testproto.ClientStreamRequest{Msg: "m"}
					if i == n-1 {
						req.SimulateError = serr
					}
					if err := st.Send(req); err != nil {
						g.errs++
						break
					}
					yields(ylds)
				}
				res, err := st.CloseAndRecv()
				g.err(err)
				g.sink += readMsg(res)
				afterEnd(g, st)
			})
		default:
			n := rng.Range(1, 4)
			split := rng.Bool()
			p.add(gi, "wrap.BidiStream", func(g *G) {
				ctx, cancel := context.WithCancel(context.Background())
				defer cancel()
				st, err := client.BidiStream(ctx)
				if err != nil {
					g.errs++
					return
				}
				// one sender goroutine, this goroutine receives
				sent := make(chan int, 1)
				go func() {
					k := 0
					for i := 0; i < n; i++ {
						req := &testproto.BidiStreamRequest{Msg: "m"}
						if i == 0 && split {
							req.Msg = "split"
						}
						if i == n-1 {
							req.SimulateError = serr
						}
						if err := st.Send(req); err != nil {
							break
						}
						k++
						yields(ylds)
					}
					_ = st.CloseSend()
					sent <- k
				}()
				if early {
					h, _ := st.Header()
					g.sink += readMD(h)
				}
				for i := 0; ; i++ {
					if i == cancelAt {
						cancel()
					}
					res, err := st.Recv()
					if err != nil {
						g.err(errIfNotEOF(err))
						break
					}
					g.sink += readMsg(res)
				}
				afterEnd(g, st)
				cancel() // releases the sender if the handler ended without reading everything
				g.sink += uint64(<-sent)
			})
		}
	})
	return p
}

func errIfNotEOF(err error) error {
	if errors.Is(err, io.EOF) {
		return nil
	}
	return err
}

// buildWrapRouted drives wrapped clients through a generated router: OnOff model servers presented as clients by
// WrapApi, registered in / created by an ApiRouter, which is itself wrapped to get client streams through two layers.
func buildWrapRouted(rng *vk.Rand, nOps int) *Prog {
	p := newProg("wrap", rng, rng.Range(4, 12), 4)
	p.flavor = "routed-onoff"
	newClient := func() traits.OnOffApiClient {
		return onoffpb.WrapApi(onoffpb.NewModelServer(onoffpb.NewModel()))
	}
	var opts []router.Option
	if rng.Bool() {
		opts = append(opts, onoffpb.WithOnOffApiClientFactory(func(name string) (traits.OnOffApiClient, error) {
			if name == "n3" {
				return nil, errors.New("no such device")
			}
			return newClient(), nil
		}))
		p.flavor += "+factory"
	}
	rt := onoffpb.NewApiRouter(opts...)
	rt.AddOnOffApiClient("n0", newClient())
	outer := onoffpb.WrapApi(rt)
	names := []string{"n0", "n1", "n2", "n3"}
	spread(rng, p, nOps/3+1, func(gi int) {
		name := names[rng.Intn(len(names))]
		switch w := rng.Intn(100); {
		case w < 10:
			c := newClient()
			p.add(gi, "ApiRouter.AddOnOffApiClient", func(g *G) { rt.AddOnOffApiClient(name, c) })
		case w < 18:
			p.add(gi, "ApiRouter.RemoveOnOffApiClient", func(g *G) { rt.RemoveOnOffApiClient(name) })
		case w < 40:
			var mask *fieldmaskpb.FieldMask
			if rng.Bool() {
				mask = &fieldmaskpb.FieldMask{Paths: []string{"state"}}
			}
			p.add(gi, "routed.GetOnOff", func(g *G) {
				res, err := outer.GetOnOff(context.Background(), &traits.GetOnOffRequest{Name: name, ReadMask: mask})
				g.err(err)
				g.sink += readMsg(res)
			})
		case w < 70:
			st := traits.OnOff_State(rng.Range(0, 2))
			p.add(gi, "routed.UpdateOnOff", func(g *G) {
				res, err := outer.UpdateOnOff(context.Background(), &traits.UpdateOnOffRequest{Name: name, OnOff: &traits.OnOff{State: st}})
				g.err(err)
				g.sink += readMsg(res)
			})
		case w < 90:
			k, uo := rng.Intn(4), rng.Bool()
			p.add(gi, "routed.PullOnOff", func(g *G) {
				st, err := outer.PullOnOff(g.ctx(k), &traits.PullOnOffRequest{Name: name, UpdatesOnly: uo})
				if err != nil {
					g.errs++
					return
				}
				// one receiver goroutine per stream, reading until the stream ends, then header and trailer
				c := &consumer{done: make(chan struct{})}
				g.cons = append(g.cons, c)
				go func() {
					defer close(c.done)
					for {
						res, err := st.Recv()
						if err != nil {
							break
						}
						c.sink += readMsg(res)
						c.n++
					}
					h, _ := st.Header()
					c.sink += readMD(h) + readMD(st.Trailer())
				}()
			})
		default:
			k := rng.Intn(4)
			p.add(gi, "cancel", func(g *G) { g.cancel(k) })
		}
	})
	return p
}
