// Monitor for C05: writes respect update, writable-field and reset masks.
package main

import (
	"fmt"
	"hash/fnv"
	"strings"

	"github.com/smart-core-os/sc-api/go/traits"
	"google.golang.org/grpc/codes"
	"google.golang.org/protobuf/proto"
	"google.golang.org/protobuf/reflect/protoreflect"
	"google.golang.org/protobuf/types/known/durationpb"
	"google.golang.org/protobuf/types/known/timestamppb"

	tp "github.com/smart-core-os/sc-golang/internal/testproto"
	"github.com/smart-core-os/sc-golang/internal/verif/vk"
)

func main() { vk.Main("C05", run) }

func run(r *vk.Run) {
	r.Describe("tuples (stored message, written message, update mask M, writable mask W, reset mask) are executed through masks.FieldUpdater.Validate/Merge and through "+
		"resource.Value.Set / resource.Collection.Update (existing item and create-if-absent; W expressed as resource writable fields, split over WithMoreWritableFields, "+
		"or overridden by WithAllFieldsWritable) and the result is compared leaf path by leaf path with an independent reference (frame outside M∩W, scalar = written value or cleared, "+
		"message/list/map named by M = merge/append/overlay, nil M = replace inside W, reset paths cleared, unknown or unwritable update paths rejected with InvalidArgument and no change, empty M = no change). "+
		"Exhaustive part: TestAllTypes, every M of <= 2 paths (with duplicates and both orders of related paths) x every W of <= 2 paths or nil x reset in {none, 1 path} x hand-built message pairs over a pool of representative paths; "+
		"random part: M of 1-5 paths with duplicates, overlaps and corrupted paths, random W / extra-W / reset and random messages over TestAllTypes, Brightness, AirTemperature, ElectricMode, Metadata. "+
		"A case is distinct by (message type, entry point, M, W, reset, hash of both messages) and non-trivial when a clause of the statement was evaluated on it (an accepted write compared with the reference, or a mask that must be rejected).",
		"writable and reset masks handed to the library are valid for the message type (they come from the resource owner); update masks are arbitrary",
		"messages carry no unknown fields",
		"an update path that is a strict ancestor of a narrower writable path may be accepted or rejected; only the frame is asserted there",
		"rejection of a valid, writable mask (e.g. duplicate paths) is counted, not judged: the statement is conditional on success",
		"whether a reset mask applies together with an empty non-nil update mask is left open")

	unis := universes()
	sequences(r)
	sharedMaskSequences(r)
	exhaustive(r, unis[0])
	for _, u := range unis {
		small(r, u)
		random(r, u)
	}

	r.Require("accepted-and-compared", r.Pick(20000, 200000))
	r.Require("must-reject-cases", r.Pick(5000, 50000))
	r.Require("accepted-with-change", r.Pick(10000, 100000))
	for _, k := range []string{"scalar/mask", "msgfield/mask", "repeated/mask", "map/mask", "scalar/replace", "msgfield/replace", "repeated/replace", "map/replace", "root/replace"} {
		r.Require("region-judged:"+k, 200)
	}
	r.Require("ancestor-of-writable-cases", 100) // accepted or rejected: the statement leaves it open
	r.Require("reset-judged:inside-region-written-has-it", 200)
	r.Require("reset-judged:outside-region", 200)
	r.Require("oneof-arm-switched", 100)
	r.Require("empty-mask-judged", 100)
	for a := api(0); a < nAPIs; a++ {
		r.Require("api:"+a.String(), 2000)
	}
	r.Require("api:masks.FieldUpdater", 20000)
	r.Require("w-expression:all-writable-override", 200)
	r.Require("w-expression:split-over-more-writable", 200)
	for _, u := range unis {
		r.Require("universe:"+u.name, 1000)
	}
}

// ---------------------------------------------------------------------------------------------------------------

type universe struct {
	name    string
	zero    proto.Message
	hot     []string // representative valid paths (the pool of the exhaustive / small parts; favoured by the random part)
	all     []string // every valid path to depth 3
	corrupt []string // invalid paths
	pairs   []msgPair
}

type msgPair struct {
	name     string
	old, src proto.Message
}

func universes() []*universe {
	var out []*universe
	t := &universe{name: "TestAllTypes", zero: &tp.TestAllTypes{}}
	t.hot = []string{
		"default_int32", "default_string", "optional_int32", "default_nested_enum",
		"oneof_default_int32", "oneof_default_nested_message", "oneof_default_nested_message.a",
		"default_nested_message", "default_nested_message.a", "default_nested_message.corecursive", "default_nested_message.corecursive.default_int32",
		"default_foreign_message", "default_foreign_message.c", "default_foreign_message.d",
		"repeated_int32", "repeated_nested_message", "map_string_string", "map_string_nested_message",
		"default_well_known.default_timestamp",
	}
	t.pairs = testAllTypesPairs()
	out = append(out, t)
	out = append(out,
		&universe{name: "Brightness", zero: &traits.Brightness{}, hot: []string{"level_percent", "preset", "preset.name", "brightness_tween", "brightness_tween.total_duration", "brightness_tween.progress", "target_level_percent", "target_preset"}},
		&universe{name: "AirTemperature", zero: &traits.AirTemperature{}, hot: []string{"mode", "temperature_set_point", "temperature_set_point.value_celsius", "temperature_set_point_delta", "temperature_range", "temperature_range.low", "temperature_range.high", "ambient_temperature", "ambient_humidity", "dew_point.value_celsius"}},
		&universe{name: "ElectricMode", zero: &traits.ElectricMode{}, hot: []string{"id", "title", "voltage", "start_time", "start_time.seconds", "segments", "normal"}},
		&universe{name: "Metadata", zero: &traits.Metadata{}, hot: []string{"name", "traits", "appearance", "appearance.title", "location.more", "location", "id.more", "product.manufacturer", "nics", "membership.group", "more"}},
	)
	for _, u := range out {
		md := u.zero.ProtoReflect().Descriptor()
		u.all = vk.LeafPaths(md, 3)
		if u.name == "TestAllTypes" {
			for _, f := range []string{"default_int32", "default_string", "repeated_int32", "default_nested_message", "default_nested_message.a", "oneof_default_int32", "map_string_string", "optional_int32"} {
				u.all = append(u.all, "default_nested_message.corecursive."+f)
			}
		}
		for _, p := range u.hot {
			if c := vk.ClassifyPath(md, p); c != vk.PathValid {
				panic(fmt.Sprintf("pool path %s of %s is %v", p, u.name, c))
			}
		}
		u.corrupt = corruptPaths(md, u.hot)
	}
	return out
}

// corruptPaths derives invalid update paths systematically from the descriptor.
func corruptPaths(md protoreflect.MessageDescriptor, hot []string) []string {
	out := []string{"nope", "", "."}
	fds := md.Fields()
	seen := map[string]bool{}
	for i := 0; i < fds.Len(); i++ {
		fd := fds.Get(i)
		var k, p string
		switch {
		case fd.IsMap():
			k, p = "map", string(fd.Name())+".key"
		case fd.IsList() && fd.Message() != nil:
			k, p = "repmsg", string(fd.Name())+"."+string(fd.Message().Fields().Get(0).Name())
		case fd.IsList():
			k, p = "repsc", string(fd.Name())+".x"
		case fd.Message() != nil:
			k, p = "msg", string(fd.Name())+".nope"
		default:
			k, p = "scalar", string(fd.Name())+".x"
		}
		if !seen[k] {
			seen[k] = true
			out = append(out, p)
		}
	}
	for _, h := range hot {
		if strings.Contains(h, ".") {
			out = append(out, h+".nope", strings.Replace(h, ".", "..", 1))
			break
		}
	}
	return out
}

func nm(a int32, co *tp.TestAllTypes) *tp.TestAllTypes_NestedMessage {
	return &tp.TestAllTypes_NestedMessage{A: a, Corecursive: co}
}

func testAllTypesPairs() []msgPair {
	i32 := func(v int32) *int32 { return &v }
	richOld := func() *tp.TestAllTypes {
		return &tp.TestAllTypes{
			DefaultInt32: 1, DefaultString: "old", OptionalInt32: i32(11), DefaultNestedEnum: tp.TestAllTypes_BAR, DefaultBool: true,
			OneofDefault:           &tp.TestAllTypes_OneofDefaultNestedMessage{OneofDefaultNestedMessage: nm(21, &tp.TestAllTypes{DefaultInt32: 22})},
			DefaultNestedMessage:   nm(31, &tp.TestAllTypes{DefaultInt32: 32, DefaultString: "co-old", RepeatedInt32: []int32{33}}),
			DefaultForeignMessage:  &tp.ForeignMessage{C: 41, D: 42},
			RepeatedInt32:          []int32{51, 52},
			RepeatedNestedMessage:  []*tp.TestAllTypes_NestedMessage{nm(61, nil), nm(62, nil)},
			MapStringString:        map[string]string{"k1": "old1", "k2": "old2"},
			MapStringNestedMessage: map[string]*tp.TestAllTypes_NestedMessage{"k1": nm(71, nil), "k2": nm(72, nil)},
			DefaultWellKnown:       &tp.WellKnown{DefaultTimestamp: tsOf(81, 82), DefaultDuration: durOf(83)},
		}
	}
	richNew := func() *tp.TestAllTypes {
		return &tp.TestAllTypes{
			DefaultInt32: 101, DefaultString: "new", OptionalInt32: i32(111), DefaultNestedEnum: tp.TestAllTypes_BAZ, DefaultInt64: 7,
			OneofDefault:           &tp.TestAllTypes_OneofDefaultNestedMessage{OneofDefaultNestedMessage: nm(121, &tp.TestAllTypes{DefaultString: "co-oneof-new"})},
			DefaultNestedMessage:   nm(131, &tp.TestAllTypes{DefaultInt32: 132, RepeatedInt32: []int32{133}, DefaultInt64: 134}),
			DefaultForeignMessage:  &tp.ForeignMessage{C: 141, D: 142},
			RepeatedInt32:          []int32{151},
			RepeatedNestedMessage:  []*tp.TestAllTypes_NestedMessage{nm(161, nil)},
			MapStringString:        map[string]string{"k2": "new2", "k3": "new3"},
			MapStringNestedMessage: map[string]*tp.TestAllTypes_NestedMessage{"k2": nm(172, nil), "k3": nm(173, nil)},
			DefaultWellKnown:       &tp.WellKnown{DefaultTimestamp: tsOf(181, 0)},
		}
	}
	// written message in which nested parents are present but only partly filled, the other oneof arm is chosen and
	// optional / oneof scalars are present with their zero value
	partial := &tp.TestAllTypes{
		DefaultString: "partial", OptionalInt32: i32(0),
		OneofDefault:          &tp.TestAllTypes_OneofDefaultInt32{OneofDefaultInt32: 0},
		DefaultNestedMessage:  nm(0, &tp.TestAllTypes{DefaultString: "co-partial"}),
		DefaultForeignMessage: &tp.ForeignMessage{C: 241},
		RepeatedNestedMessage: []*tp.TestAllTypes_NestedMessage{nm(0, nil)},
		MapStringString:       map[string]string{"k1": ""},
		DefaultWellKnown:      &tp.WellKnown{DefaultDuration: durOf(283)},
	}
	oldInt32Arm := richOld()
	oldInt32Arm.OneofDefault = &tp.TestAllTypes_OneofDefaultInt32{OneofDefaultInt32: 25}
	oldInt32Arm.DefaultNestedMessage = nm(31, nil)
	newInt32Arm := richNew()
	newInt32Arm.OneofDefault = &tp.TestAllTypes_OneofDefaultInt32{OneofDefaultInt32: 125}
	sparseOld := &tp.TestAllTypes{DefaultInt32: 1, DefaultNestedMessage: nm(0, &tp.TestAllTypes{DefaultString: "only-co"}), DefaultForeignMessage: &tp.ForeignMessage{D: 42}}
	return []msgPair{
		{"rich/rich", richOld(), richNew()},
		{"rich/empty", richOld(), &tp.TestAllTypes{}},
		{"rich/partial", richOld(), partial},
		{"int32arm/rich", oldInt32Arm, richNew()},
		{"rich/int32arm", richOld(), newInt32Arm},
		{"absent/rich", nil, richNew()},
		{"sparse/partial", sparseOld, partial},
		{"rich/same", richOld(), richOld()},
	}
}

// ---------------------------------------------------------------------------------------------------------------

func related(a, b string) bool { return a != b && (covers(a, b) || covers(b, a)) }

// exhaustive: every M of <= 2 pool paths x every W of <= 2 pool paths or nil x reset in {none, one path} x pairs.
func exhaustive(r *vk.Run, u *universe) {
	var Ms, Ws []mask
	Ms = append(Ms, nilMask(), pathsMask())
	Ws = append(Ws, nilMask(), pathsMask())
	for i, p := range u.hot {
		Ms = append(Ms, pathsMask(p), pathsMask(p, p))
		Ws = append(Ws, pathsMask(p))
		for j := i + 1; j < len(u.hot); j++ {
			q := u.hot[j]
			Ms = append(Ms, pathsMask(p, q))
			Ws = append(Ws, pathsMask(p, q))
			if related(p, q) {
				Ms = append(Ms, pathsMask(q, p))
			}
		}
	}
	npairs := r.Pick(4, len(u.pairs))
	idx := 0
	for iM, M := range Ms {
		for iW, W := range Ws {
			for k := 0; k < 2; k++ {
				var reset []string
				if k == 1 {
					reset = []string{u.hot[(iM*7+iW*3)%len(u.hot)]}
					if (iM+iW)%3 == 0 && !M.isNil && len(M.paths) > 0 {
						reset = []string{M.paths[0]} // reset a path that is also being updated
					}
				}
				for ip := 0; ip < npairs; ip++ {
					idx++
					if !r.Mine(idx) {
						continue
					}
					pr := u.pairs[ip]
					t := tuple{uni: u.name, old: pr.old, src: pr.src, M: M, W: W, reset: reset}
					runTuple(r, u, t, idx, "exhaustive", pr.name)
					r.Count("exhaustive-tuples", 1)
				}
			}
		}
	}
	r.Exhaustive(true)
}

// small: for the trait messages (and again TestAllTypes, with random messages): M in {nil, single, pair} x W in {nil, single} over the pool.
func small(r *vk.Run, u *universe) {
	rng := r.Rand("small/" + u.name)
	var pairs []msgPair
	for i := 0; i < r.Pick(3, 10); i++ {
		old, src := genPair(rng, u)
		pairs = append(pairs, msgPair{fmt.Sprintf("gen%d", i), old, src})
	}
	var Ms, Ws []mask
	Ms = append(Ms, nilMask(), pathsMask())
	Ws = append(Ws, nilMask())
	for i, p := range u.hot {
		Ms = append(Ms, pathsMask(p))
		Ws = append(Ws, pathsMask(p))
		for j := i + 1; j < len(u.hot); j++ {
			Ms = append(Ms, pathsMask(p, u.hot[j]))
			if related(p, u.hot[j]) {
				Ws = append(Ws, pathsMask(p, u.hot[j]))
			}
		}
	}
	for j := 0; j+1 < len(u.hot); j += 2 {
		Ws = append(Ws, pathsMask(u.hot[j], u.hot[j+1]))
	}
	var relPairs [][]string
	for _, p := range u.hot {
		for _, q := range u.hot {
			if p != q && covers(p, q) {
				relPairs = append(relPairs, []string{p, q}, []string{q, p})
			}
		}
	}
	idx := 0
	for iM, M := range Ms {
		for iW, W := range Ws {
			for ip, pr := range pairs {
				idx++
				if !r.Mine(idx) {
					continue
				}
				var reset []string
				switch (iM + iW + ip) % 6 {
				case 0, 3:
					reset = []string{u.hot[(iM+2*iW+ip)%len(u.hot)]}
				case 1: // a reset mask naming a field and one of its sub-fields
					reset = relPairs[(iM+iW)%len(relPairs)]
				}
				t := tuple{uni: u.name, old: pr.old, src: pr.src, M: M, W: W, reset: reset}
				runTuple(r, u, t, idx, "small", pr.name)
				r.Count("small-tuples:"+u.name, 1)
			}
		}
	}
}

func genPair(rng *vk.Rand, u *universe) (old, src proto.Message) {
	o := vk.GenOpts{Density: rng.Range(15, 60), MaxDepth: 2, MaxList: 3, Special: true}
	old = vk.GenMessage(rng, u.zero, o)
	enrich(rng, u, old, o)
	switch rng.Intn(6) {
	case 0: // close relative of the stored message
		src = proto.Clone(old)
		for i := rng.Range(1, 3); i > 0; i-- {
			mutateOne(rng, u, src, o)
		}
	case 1:
		src = u.zero.ProtoReflect().New().Interface()
		enrich(rng, u, src, o)
	default:
		o.Density = rng.Range(15, 60)
		src = vk.GenMessage(rng, u.zero, o)
		enrich(rng, u, src, o)
	}
	if rng.Chance(1, 12) {
		old = nil
	}
	// proto.Clone drops a negative zero held in an implicit-presence float field (protobuf-go merges such fields with
	// "if v != 0"); both messages are made clone-stable so that this quirk of the protobuf runtime is not mistaken for a change.
	if old != nil {
		old = proto.Clone(old)
	}
	return old, proto.Clone(src)
}

// enrich populates a random half of the pool paths so that the regions under test are rarely empty.
func enrich(rng *vk.Rand, u *universe, m proto.Message, o vk.GenOpts) {
	for _, p := range u.hot {
		if !rng.Chance(2, 5) {
			continue
		}
		h, fd := mutPath(m.ProtoReflect(), p)
		if fd.Message() != nil && !fd.IsList() && !fd.IsMap() {
			if rng.Bool() {
				h.Mutable(fd) // present, possibly empty
			}
			continue
		}
		vk.SetRandomField(rng, h, fd, o, 1)
	}
}

// mutateOne sets or clears one random valid path of m (vk.Mutate panics on an unpopulated list field: its
// canonField calls Set with the read-only empty list that Get returns).
func mutateOne(rng *vk.Rand, u *universe, m proto.Message, o vk.GenOpts) {
	p := pick(rng, u.all)
	if rng.Bool() {
		p = pick(rng, u.hot)
	}
	if rng.Chance(1, 3) {
		if h, fd, ok := vk.GetPath(m.ProtoReflect(), p); ok {
			h.Clear(fd)
		}
		return
	}
	h, fd := mutPath(m.ProtoReflect(), p)
	if fd.Message() != nil && !fd.IsList() && !fd.IsMap() {
		h.Mutable(fd)
		return
	}
	h.Clear(fd)
	vk.SetRandomField(rng, h, fd, o, 1)
}

func pick(rng *vk.Rand, ss []string) string { return ss[rng.Intn(len(ss))] }

func parentOf(p string) string {
	if i := strings.LastIndex(p, "."); i > 0 {
		return p[:i]
	}
	return p
}

func childOf(rng *vk.Rand, u *universe, p string) string {
	var kids []string
	for _, q := range u.all {
		if q != p && covers(p, q) {
			kids = append(kids, q)
		}
	}
	if len(kids) == 0 {
		return p
	}
	return pick(rng, kids)
}

func random(r *vk.Run, u *universe) {
	n := r.Pick(12000, 1500000)
	if u.name != "TestAllTypes" {
		n = r.Pick(3000, 250000)
	}
	for i := 0; i < n; i++ {
		if !r.Mine(i) {
			continue
		}
		rng := r.CaseRand("random/"+u.name, i)
		old, src := genPair(rng, u)
		anyPath := func() string {
			switch x := rng.Intn(100); {
			case x < 65:
				return pick(rng, u.hot)
			default:
				return pick(rng, u.all)
			}
		}
		var M mask
		switch x := rng.Intn(100); {
		case x < 10:
			M = nilMask()
		case x < 13:
			M = pathsMask()
		default:
			k := rng.Range(1, 5)
			for j := 0; j < k; j++ {
				switch y := rng.Intn(100); {
				case y < 4:
					M.paths = append(M.paths, pick(rng, u.corrupt))
				case y < 14 && len(M.paths) > 0: // duplicate / parent / child of an earlier path
					q := pick(rng, M.paths)
					switch rng.Intn(3) {
					case 0:
						M.paths = append(M.paths, q)
					case 1:
						M.paths = append(M.paths, parentOf(q))
					default:
						M.paths = append(M.paths, childOf(rng, u, q))
					}
				default:
					M.paths = append(M.paths, anyPath())
				}
			}
		}
		var W mask
		switch x := rng.Intn(100); {
		case x < 25:
			W = nilMask()
		case x < 28:
			W = pathsMask()
		default:
			if !M.isNil && rng.Chance(7, 10) { // writable fields related to the update paths, so that many writes are accepted
				for _, p := range M.paths {
					if vk.ClassifyPath(u.zero.ProtoReflect().Descriptor(), p) != vk.PathValid {
						continue
					}
					switch y := rng.Intn(10); {
					case y < 5:
						W.paths = append(W.paths, p)
					case y < 7:
						W.paths = append(W.paths, parentOf(p))
					case y < 9:
						W.paths = append(W.paths, childOf(rng, u, p))
					}
				}
			}
			for k := rng.Range(0, 2); k > 0 || len(W.paths) == 0; k-- {
				W.paths = append(W.paths, anyPath())
			}
		}
		var reset []string
		if rng.Chance(1, 3) {
			for k := rng.Range(1, 2); k > 0; k-- {
				if !M.isNil && len(M.paths) > 0 && rng.Bool() {
					if p := pick(rng, M.paths); vk.ClassifyPath(u.zero.ProtoReflect().Descriptor(), p) == vk.PathValid {
						reset = append(reset, p)
						continue
					}
				}
				reset = append(reset, anyPath())
			}
		}
		t := tuple{uni: u.name, old: old, src: src, M: M, W: W, reset: reset}
		runTuple(r, u, t, i, "random", "")
		r.Count("random-tuples:"+u.name, 1)
	}
}

// ---------------------------------------------------------------------------------------------------------------

func msgHash(ms ...proto.Message) uint64 {
	h := fnv.New64a()
	for _, m := range ms {
		if m == nil {
			h.Write([]byte{0})
			continue
		}
		b, _ := proto.MarshalOptions{Deterministic: true}.Marshal(m)
		h.Write(b)
		h.Write([]byte{1})
	}
	return h.Sum64()
}

// runTuple executes one tuple through FieldUpdater and through one resource entry point and judges both.
func runTuple(r *vk.Run, u *universe, t tuple, idx int, part, pairName string) {
	r.Count("universe:"+u.name, 1)
	desc := fmt.Sprintf("%s|%s|%s|%v|%x", u.name, t.M, t.W, t.reset, msgHash(t.old, t.src))

	sp := refMerge(t.old, t.src, t.M, t.W, t.reset)
	o := driveDirect(t)
	direct := judge(r, t, sp, o, "masks.FieldUpdater", desc)
	dkeys := map[string]bool{}
	for _, f := range direct {
		dkeys[f.key] = true
		r.Violation(f.key, f.detail+"\n  via masks.FieldUpdater; "+describe(t), t.replay(map[string]any{"entry": "masks.FieldUpdater", "part": part, "pair": pairName}))
	}
	if r.WantSample(part + "/" + verdictName(sp, o)) {
		r.Sample(part+"/"+verdictName(sp, o), t.replay(map[string]any{"entry": "masks.FieldUpdater", "result": vk.JSON(o.got), "error": fmt.Sprint(o.err), "regions": regionPaths(sp.regions)}))
	}

	// the same tuple through the resource API
	a := api(idx % int(nAPIs))
	variant := idx / int(nAPIs)
	decoy := u.hot[idx%len(u.hot)]
	rt := t
	base := dkeys
	if a == apiCollectionCreate {
		rt.old = nil
	} else if a == apiCollection && rt.old == nil {
		rt.old = zeroOf(t.src)
	}
	ro, resW, moreW, all := driveResource(rt, a, variant, decoy)
	// the reference for the effective writable fields
	if eff := unionW(resW, moreW, all); !sameSet(eff, t.W) {
		panic("harness: splitW does not express W: " + eff.String() + " vs " + t.W.String())
	}
	switch {
	case all:
		r.Count("w-expression:all-writable-override", 1)
	case !moreW.isNil && !resW.isNil && len(moreW.paths) > 0:
		r.Count("w-expression:split-over-more-writable", 1)
	case !moreW.isNil && resW.isNil:
		r.Count("w-expression:more-writable-on-unrestricted-resource", 1)
	default:
		r.Count("w-expression:resource-writable-fields", 1)
	}
	rsp := sp
	unnormW := !rt.W.isNil && !normalised(rt.W.paths)
	if (a == apiCollectionCreate && t.old != nil) || unnormW {
		// different stored state, or a writable mask that the resource layer normalises before FieldUpdater sees it:
		// the baseline is FieldUpdater on the tuple the resource layer effectively executes
		rsp = refMerge(rt.old, rt.src, rt.M, rt.W, rt.reset)
		if unnormW {
			rt.W = normaliseMask(rt.W) // what FieldUpdater is given by the resource layer; same set of fields
		}
		base = map[string]bool{}
		for _, f := range judge(nil, rt, rsp, driveDirect(rt), "", "") {
			base[f.key] = true
		}
	}
	rdesc := desc + "|" + a.String()
	if rt.old == nil {
		rdesc += "|absent"
	}
	for _, f := range judge(r, rt, rsp, ro, a.String(), rdesc) {
		if base[f.key] {
			r.Count("resource-finding-same-as-FieldUpdater", 1)
			continue // the same clause already fails below the resource layer; reported there
		}
		key := "C05/resource/" + strings.TrimPrefix(f.key, "C05/")
		r.Violation(key, f.detail+"\n  via "+a.String()+" ("+ro.how+") while masks.FieldUpdater with the effective masks satisfies this clause; "+describe(rt),
			rt.replay(map[string]any{"entry": a.String(), "how": ro.how, "part": part, "pair": pairName}))
	}
	if r.WantSample("resource/" + a.String()) {
		r.Sample("resource/"+a.String(), rt.replay(map[string]any{"entry": a.String(), "how": ro.how, "result": vk.JSON(ro.got), "error": fmt.Sprint(ro.err)}))
	}
}

func sameSet(a, b mask) bool {
	if a.isNil != b.isNil {
		return false
	}
	sa, sb := map[string]bool{}, map[string]bool{}
	for _, p := range a.paths {
		sa[p] = true
	}
	for _, p := range b.paths {
		sb[p] = true
	}
	if len(sa) != len(sb) {
		return false
	}
	for p := range sa {
		if !sb[p] {
			return false
		}
	}
	return true
}

func verdictName(sp spec, o outcome) string {
	acc := "accepted"
	if o.err != nil {
		acc = "rejected"
	}
	switch sp.verdict {
	case mustReject:
		return "must-reject/" + acc
	case mayReject:
		return "ancestor-of-writable/" + acc
	case openValidity:
		return "validity-open/" + acc
	}
	if sp.noChange {
		return "empty-mask/" + acc
	}
	return "valid/" + acc
}

func describe(t tuple) string {
	return fmt.Sprintf("message=%s update_mask=%s writable=%s reset=%v\n  stored=%s\n  written=%s", t.uni, t.M, t.W, t.reset, vk.JSON(t.old), vk.JSON(t.src))
}

// normalised reports whether the paths are free of duplicates and of parent/child overlaps.
func normalised(ps []string) bool {
	for i, p := range ps {
		for j, q := range ps {
			if i != j && covers(p, q) {
				return false
			}
		}
	}
	return true
}

// normaliseMask drops duplicates and paths covered by another path (same set of fields).
func normaliseMask(m mask) mask {
	out := mask{isNil: m.isNil}
	for i, p := range m.paths {
		keep := true
		for j, q := range m.paths {
			if (q != p && covers(q, p)) || (q == p && j < i) {
				keep = false
			}
		}
		if keep {
			out.paths = append(out.paths, p)
		}
	}
	return out
}

// judge applies the statement to one execution. r == nil: no counting (used to compute a baseline).
func judge(r *vk.Run, t tuple, sp spec, o outcome, entry, desc string) []finding {
	count := func(name string) {
		if r != nil {
			r.Count(name, 1)
		}
	}
	if r != nil {
		r.Eval(1)
		count("api:" + entry)
	}
	var out []finding
	if o.panicked != "" {
		return []finding{{"C05/panic/" + verdictName(sp, o), "panic: " + o.panicked}}
	}
	rejectedUnchanged := func(class string) {
		if !o.afterKnown {
			return
		}
		if !sameMsg(o.after, t.old) {
			out = append(out, finding{"C05/reject-changed/" + class, fmt.Sprintf("the write was rejected (%v) but the stored message changed to %s", o.err, vk.JSON(o.after))})
		}
		count("rejected-and-state-compared")
	}
	switch sp.verdict {
	case mustReject:
		count("must-reject-cases")
		if r != nil {
			r.Distinct(desc)
		}
		cls := strings.SplitN(sp.rejectClass, "/", 2)
		if o.err == nil {
			count("must-reject-but-accepted")
			return []finding{{"C05/" + sp.rejectClass, sp.why + " but the write was accepted; result " + vk.JSON(o.got)}}
		}
		if c := codeOf(o.err); c != codes.InvalidArgument {
			out = append(out, finding{"C05/reject-code/" + cls[1], fmt.Sprintf("%s: rejected with %v, not InvalidArgument: %v", sp.why, c, o.err)})
		}
		count("must-reject-rejected:" + cls[1])
		rejectedUnchanged(strings.TrimPrefix(cls[0], "accept-"))
		return out
	case openValidity:
		if o.err == nil {
			count("unasserted:validity-open-accepted")
		} else {
			count("unasserted:validity-open-rejected")
		}
		return nil
	}
	if o.err != nil {
		switch {
		case sp.verdict == mayReject:
			count("unasserted:ancestor-of-writable-rejected")
			count("ancestor-of-writable-cases")
		case codeOf(o.err) != codes.InvalidArgument:
			count("unasserted:valid-mask-failed-with-" + codeOf(o.err).String())
		case !normalised(t.M.paths):
			count("unasserted:valid-writable-mask-rejected/M-has-duplicate-or-overlapping-paths")
		case !t.W.isNil && !normalised(t.W.paths):
			count("unasserted:valid-writable-mask-rejected/W-has-duplicate-or-overlapping-paths")
		default:
			count("unasserted:valid-writable-mask-rejected/normalised-masks")
			if r != nil {
				r.Note("normalised valid writable mask rejected via %s: %v; M=%s W=%s", entry, o.err, t.M, t.W)
			}
		}
		if o.afterKnown && !sameMsg(o.after, t.old) {
			count("unasserted:rejected-valid-mask-changed-state")
			if r != nil {
				r.Note("rejected write (valid mask) changed state via %s: M=%s W=%s", entry, t.M, t.W)
			}
		}
		return nil
	}
	if sp.verdict == mayReject {
		count("unasserted:ancestor-of-writable-accepted")
		count("ancestor-of-writable-cases")
	}
	// accepted: compare
	out = append(out, checkMerge(t.old, t.src, o.got, t.M, t.W, sp)...)
	if o.afterKnown && !sameMsg(o.after, o.got) {
		out = append(out, finding{"C05/get-differs-from-returned", fmt.Sprintf("write returned %s but the next read gives %s", vk.JSON(o.got), vk.JSON(o.after))})
	}
	if r == nil {
		return out
	}
	count("accepted-and-compared")
	r.Distinct(desc)
	if !sameMsg(o.got, orZero(t.old, t.src)) {
		count("accepted-with-change")
	}
	if sp.noChange {
		count("empty-mask-judged")
	}
	fsrc := vk.Flatten(t.src)
	for _, rg := range sp.regions {
		if rg.mode == modeOpen {
			count("region-open-judged")
			continue
		}
		count("region-judged:" + kindOf(rg.fd) + "/" + rg.mode.String())
		if rg.overlap {
			count("region-judged:parent-and-child-path-in-M")
		}
		// did this write switch a oneof arm?
		if rg.fd != nil && rg.fd.ContainingOneof() != nil && !rg.fd.ContainingOneof().IsSynthetic() && hasField(fsrc, rg.path) && t.old != nil {
			fold := vk.Flatten(t.old)
			oo := rg.fd.ContainingOneof()
			for i := 0; i < oo.Fields().Len(); i++ {
				g := oo.Fields().Get(i)
				if g != rg.fd && hasField(fold, parentPrefix(rg.path)+string(g.Name())) {
					count("oneof-arm-switched")
				}
			}
		}
	}
	for _, rp := range sp.reset {
		inside := false
		for _, rg := range sp.regions {
			if rg.path == "" || covers(rg.path, rp) || covers(rp, rg.path) {
				inside = true
			}
		}
		switch {
		case sp.noChange:
			count("reset-unasserted:with-empty-update-mask")
		case inside && hasField(fsrc, rp):
			count("reset-judged:inside-region-written-has-it")
		case inside:
			count("reset-judged:inside-region-written-lacks-it")
		default:
			count("reset-judged:outside-region")
		}
	}
	return out
}

func parentPrefix(p string) string {
	if i := strings.LastIndex(p, "."); i >= 0 {
		return p[:i+1]
	}
	return ""
}

func orZero(m, like proto.Message) proto.Message {
	if m == nil {
		return zeroOf(like)
	}
	return m
}

func tsOf(s int64, n int32) *timestamppb.Timestamp {
	return &timestamppb.Timestamp{Seconds: s, Nanos: n}
}
func durOf(s int64) *durationpb.Duration { return &durationpb.Duration{Seconds: s} }
