package main

// Drivers: one tuple (stored, written, update mask, writable mask, reset mask) through masks.FieldUpdater directly and
// through resource.Value.Set / resource.Collection.Update with the writable mask expressed in the different ways the
// resource API offers.

import (
	"fmt"

	"google.golang.org/grpc/codes"
	"google.golang.org/grpc/status"
	"google.golang.org/protobuf/proto"
	"google.golang.org/protobuf/types/known/fieldmaskpb"

	"github.com/smart-core-os/sc-golang/internal/verif/vk"
	"github.com/smart-core-os/sc-golang/pkg/masks"
	"github.com/smart-core-os/sc-golang/pkg/resource"
)

type tuple struct {
	uni      string
	old, src proto.Message // old == nil: nothing stored yet
	M, W     mask
	reset    []string // nil: no reset mask
}

type outcome struct {
	got      proto.Message // result of a successful write
	err      error
	panicked string
	// resource drivers only
	after      proto.Message // state read back after the call (nil: absent)
	afterKnown bool
	how        string // how W / M were expressed
}

func fm(m mask) *fieldmaskpb.FieldMask {
	if m.isNil {
		return nil
	}
	return &fieldmaskpb.FieldMask{Paths: append([]string{}, m.paths...)}
}

func zeroOf(m proto.Message) proto.Message { return m.ProtoReflect().New().Interface() }

func driveDirect(t tuple) (o outcome) {
	opts := []masks.FieldUpdaterOption{masks.WithUpdateMask(fm(t.M)), masks.WithWritableFields(fm(t.W))}
	if t.reset != nil {
		opts = append(opts, masks.WithResetPaths(t.reset...))
	}
	src := proto.Clone(t.src)
	dst := zeroOf(t.src)
	if t.old != nil {
		dst = proto.Clone(t.old)
	}
	p, what := vk.Recover(func() {
		u := masks.NewFieldUpdater(opts...)
		if o.err = u.Validate(src); o.err != nil {
			return
		}
		u.Merge(dst, src)
		o.got = dst
	})
	if p {
		o.panicked = what
	}
	o.how = "masks.FieldUpdater"
	return o
}

type api int

const (
	apiValue api = iota
	apiCollection
	apiCollectionCreate
	nAPIs
)

func (a api) String() string {
	return [...]string{"Value.Set", "Collection.Update", "Collection.Update+create"}[a]
}

// splitW expresses the effective writable mask W as (resource writable fields, extra writable fields, all-writable)
// in one of several equivalent ways chosen by variant; decoy is a path used where a mask must be ignored.
func splitW(W mask, variant int, decoy string) (resW, moreW mask, all bool, how string) {
	if W.isNil {
		switch variant % 5 {
		case 0:
			return nilMask(), nilMask(), false, "W=nil"
		case 1:
			return pathsMask(decoy), nilMask(), true, "resource W=[decoy]+WithAllFieldsWritable"
		case 2:
			return nilMask(), pathsMask(decoy), false, "resource W=nil+WithMoreWritableFields(decoy)"
		case 3:
			// the override and extra writable paths on the same call: the override wins
			return pathsMask(decoy), pathsMask(decoy), true, "resource W=[decoy]+WithMoreWritableFields(decoy)+WithAllFieldsWritable"
		default:
			return pathsMask(), pathsMask(decoy), true, "resource W=[] (empty)+WithMoreWritableFields(decoy)+WithAllFieldsWritable"
		}
	}
	n := len(W.paths)
	switch variant % 4 {
	case 0:
		return pathsMask(W.paths...), nilMask(), false, "resource W"
	case 1:
		return pathsMask(W.paths[:n/2]...), pathsMask(W.paths[n/2:]...), false, "resource W=first half, WithMoreWritableFields(second half)"
	case 2:
		return pathsMask(), pathsMask(W.paths...), false, "resource W=[] (empty), WithMoreWritableFields(W)"
	default:
		if n == 0 {
			return pathsMask(), pathsMask(), false, "resource W=[], more=[]"
		}
		return pathsMask(W.paths...), pathsMask(W.paths[0]), false, "resource W, WithMoreWritablePaths(W[0]) (duplicate)"
	}
}

func driveResource(t tuple, a api, variant int, decoy string) (o outcome, resW, moreW mask, all bool) {
	resW, moreW, all, o.how = splitW(t.W, variant, decoy)
	var ropts []resource.Option
	if !resW.isNil {
		ropts = append(ropts, resource.WithWritableFields(fm(resW)))
	}
	if (variant/7)%3 == 0 {
		// a resource-level comparer only decides what subscribers are told: under the coarsest one (everything is
		// equivalent) a write is stored and returned exactly as without it
		ropts = append(ropts, resource.WithEquivalence(resource.ComparerFunc(func(x, y proto.Message) bool { return x != nil && y != nil })))
		o.how += "; resource has an all-equivalent comparer"
	}
	var wopts []resource.WriteOption
	switch {
	case t.M.isNil && (variant/3)%4 == 1:
		// "more update paths" on a write that has no update mask: there is nothing to add to, the write stays a full one
		wopts = append(wopts, resource.WithMoreUpdatePaths(decoy))
		o.how += "; no update mask + WithMoreUpdatePaths(decoy)"
	case t.M.isNil:
	case len(t.M.paths) >= 2 && variant%5 == 3 && splittable(t):
		// the same set of paths given in two options (WithMoreUpdateMask unions and normalises them)
		k := len(t.M.paths) / 2
		wopts = append(wopts, resource.WithUpdatePaths(t.M.paths[:k]...), resource.WithMoreUpdatePaths(t.M.paths[k:]...))
		o.how += "; WithUpdatePaths+WithMoreUpdatePaths"
	case variant%2 == 0:
		wopts = append(wopts, resource.WithUpdateMask(fm(t.M)))
	default:
		wopts = append(wopts, resource.WithUpdatePaths(t.M.paths...))
	}
	if !moreW.isNil {
		switch {
		case len(moreW.paths) >= 2 && variant%3 == 1:
			// the extra writable paths given in two options of the same call (they accumulate)
			k := len(moreW.paths) / 2
			wopts = append(wopts, resource.WithMoreWritablePaths(moreW.paths[:k]...), resource.WithMoreWritableFields(&fieldmaskpb.FieldMask{Paths: append([]string{}, moreW.paths[k:]...)}))
			o.how += "; extra writable paths in two options"
		case variant%2 == 0:
			wopts = append(wopts, resource.WithMoreWritableFields(fm(moreW)))
		default:
			wopts = append(wopts, resource.WithMoreWritablePaths(moreW.paths...))
		}
	}
	if all {
		if (variant/5)%2 == 0 {
			wopts = append(wopts, resource.WithAllFieldsWritable())
		} else {
			wopts = append([]resource.WriteOption{resource.WithAllFieldsWritable()}, wopts...)
			o.how += "; override given first"
		}
	}
	if t.reset != nil {
		if variant%2 == 0 {
			wopts = append(wopts, resource.WithResetMask(&fieldmaskpb.FieldMask{Paths: append([]string{}, t.reset...)}))
		} else {
			wopts = append(wopts, resource.WithResetPaths(t.reset...))
		}
	}
	src := proto.Clone(t.src)
	p, what := vk.Recover(func() {
		switch a {
		case apiValue:
			if t.old != nil {
				ropts = append(ropts, resource.WithInitialValue(proto.Clone(t.old)))
			}
			v := resource.NewValue(ropts...)
			o.got, o.err = v.Set(src, wopts...)
			if t.old != nil || o.err == nil {
				o.after = v.Get()
				o.afterKnown = true
			}
		case apiCollection:
			old := t.old
			if old == nil {
				old = zeroOf(t.src)
			}
			ropts = append(ropts, resource.WithInitialRecord("k", proto.Clone(old)))
			c := resource.NewCollection(ropts...)
			o.got, o.err = c.Update("k", src, wopts...)
			if m, ok := c.Get("k"); ok {
				o.after = m
			}
			o.afterKnown = true
		case apiCollectionCreate:
			c := resource.NewCollection(ropts...)
			o.got, o.err = c.Update("k", src, append(wopts, resource.WithCreateIfAbsent())...)
			if m, ok := c.Get("k"); ok {
				o.after = m
			}
			o.afterKnown = true
		}
	})
	if p {
		o.panicked = what
	}
	if o.err != nil {
		o.got = nil
	}
	return o, resW, moreW, all
}

func codeOf(err error) codes.Code {
	if s, ok := status.FromError(err); ok {
		return s.Code()
	}
	return codes.Unknown
}

func sameMsg(a, b proto.Message) bool {
	if a == nil || b == nil {
		return a == nil && b == nil
	}
	return sameMap(vk.Flatten(a), vk.Flatten(b))
}

func (t tuple) replay(extra map[string]any) map[string]any {
	m := map[string]any{
		"message": t.uni, "stored": vk.JSON(t.old), "written": vk.JSON(t.src),
		"update_mask": t.M.String(), "writable": t.W.String(), "reset": fmt.Sprint(t.reset),
	}
	for k, v := range extra {
		m[k] = v
	}
	return m
}

// splittable: the update mask may be handed over in two options (WithUpdatePaths + WithMoreUpdatePaths, which unions
// and normalises) only when normalisation cannot change what it means: all paths valid, no duplicates, no overlaps.
func splittable(t tuple) bool {
	md := t.src.ProtoReflect().Descriptor()
	for _, p := range t.M.paths {
		if vk.ClassifyPath(md, p) != vk.PathValid {
			return false
		}
	}
	return normalised(t.M.paths)
}
