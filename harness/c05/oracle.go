package main

// Reference for C05, written from the property statement and google/protobuf/field_mask.proto. It never calls
// pkg/masks, fmutils or fieldmaskpb. It started as a review copy of vk.RefMerge / vk.CheckMerge; the differences
// (see the report) are: oneof-sibling exemption in the frame check, the "update path is a strict ancestor of a
// writable path" regions are judged leniently (the statement only fixes the frame there), the final field of a
// region is found by a descriptor walk (vk's fdOf returns an ancestor's descriptor when ancestors are absent),
// paths through repeated messages / empty segments are "validity left open" rather than must-reject, and every
// failed clause is classified into a stable key instead of a single clause name.

import (
	"fmt"
	"sort"
	"strings"

	"google.golang.org/protobuf/proto"
	"google.golang.org/protobuf/reflect/protoreflect"

	"github.com/smart-core-os/sc-golang/internal/verif/vk"
)

// mask is a field mask as the caller gives it: absent (nil) or a list of paths (possibly empty).
type mask struct {
	isNil bool
	paths []string
}

func nilMask() mask              { return mask{isNil: true} }
func pathsMask(p ...string) mask { return mask{paths: append([]string{}, p...)} }
func (m mask) String() string {
	if m.isNil {
		return "nil"
	}
	return "[" + strings.Join(m.paths, ",") + "]"
}

type regionMode int

const (
	modeReplace regionMode = iota // no update mask: the writable region is made equal to the written message
	modeMask                      // region named by an update path that lies inside the writable fields
	modeOpen                      // writable path below an update path (acceptance and value left open by the statement)
)

func (m regionMode) String() string { return [...]string{"replace", "mask", "open"}[m] }

type region struct {
	path    string
	mode    regionMode
	fd      protoreflect.FieldDescriptor // final field ("" region: nil)
	overlap bool                         // M also names a strict descendant of this region (parent+child paths)
}

type verdictKind int

const (
	mustAccept verdictKind = iota // nothing in the statement allows a... (acceptance itself is not asserted, see run)
	mustReject
	mayReject    // update path is a strict ancestor of a narrower writable path
	openValidity // path through a repeated message / empty segment: statement does not fix validity
)

type spec struct {
	verdict     verdictKind
	rejectClass string // key fragment for mustReject
	why         string
	noChange    bool
	regions     []region
	reset       []string // valid reset paths
	nothingW    bool     // W is non-nil and empty
	cands       []proto.Message
	merged      proto.Message // proto.Merge(old, src): source of acceptable leaf values in open regions
}

func covers(w, p string) bool { return w == p || strings.HasPrefix(p, w+".") }

// under: leaf key p (possibly a presence marker "x/") lies at or below q.
func under(p, q string) bool {
	p = strings.TrimSuffix(p, "/")
	return q == "" || p == q || strings.HasPrefix(p, q+".")
}

// above: p is the presence marker of a strict ancestor of q.
func above(p, q string) bool {
	return strings.HasSuffix(p, "/") && strings.HasPrefix(q, strings.TrimSuffix(p, "/")+".")
}

// fieldOf walks a valid path over md and returns its final field.
func fieldOf(md protoreflect.MessageDescriptor, path string) protoreflect.FieldDescriptor {
	var fd protoreflect.FieldDescriptor
	for _, s := range strings.Split(path, ".") {
		if md == nil {
			return nil
		}
		fd = md.Fields().ByName(protoreflect.Name(s))
		if fd == nil {
			return nil
		}
		md = fd.Message()
		if fd.IsList() || fd.IsMap() {
			md = nil
		}
	}
	return fd
}

func isComposite(fd protoreflect.FieldDescriptor) bool {
	return fd.IsList() || fd.IsMap() || fd.Message() != nil
}

// unionW is the reference for the effective writable fields of a resource write.
func unionW(resW, moreW mask, allWritable bool) mask {
	if allWritable || resW.isNil {
		return nilMask()
	}
	out := mask{}
	seen := map[string]bool{}
	for _, p := range append(append([]string{}, resW.paths...), moreW.paths...) {
		if !seen[p] {
			seen[p] = true
			out.paths = append(out.paths, p)
		}
	}
	return out
}

// refMerge computes what the statement fixes for a write of src over old (nil = zero message).
func refMerge(old, src proto.Message, M, W mask, reset []string) spec {
	md := src.ProtoReflect().Descriptor()
	var sp spec
	sp.nothingW = !W.isNil && len(W.paths) == 0
	for _, rp := range reset {
		if vk.ClassifyPath(md, rp) == vk.PathValid {
			sp.reset = append(sp.reset, rp)
		}
	}
	open := false
	if !M.isNil {
		for _, p := range M.paths {
			switch c := vk.ClassifyPath(md, p); c {
			case vk.PathValid:
			case vk.PathThroughRepMsg, vk.PathEmpty:
				open = true
				sp.why = "update path " + p + " is " + c.String()
			default:
				return spec{verdict: mustReject, rejectClass: "accept-invalid/" + c.String(), why: "update path " + p + " is " + c.String()}
			}
		}
	}
	if open {
		sp.verdict = openValidity
		return sp
	}
	type reg struct {
		mode regionMode
	}
	regs := map[string]regionMode{}
	var order []string
	add := func(p string, m regionMode) {
		if cur, ok := regs[p]; ok {
			if m == modeOpen && cur != modeOpen {
				regs[p] = modeOpen
			}
			return
		}
		regs[p] = m
		order = append(order, p)
	}
	switch {
	case M.isNil && W.isNil:
		add("", modeReplace)
	case M.isNil:
		for _, w := range W.paths {
			add(w, modeReplace)
		}
	case len(M.paths) == 0:
		sp.noChange = true
	default:
		for _, p := range M.paths {
			if W.isNil {
				add(p, modeMask)
				continue
			}
			hit := false
			for _, w := range W.paths {
				if covers(w, p) {
					add(p, modeMask)
					hit = true
					break
				}
			}
			if hit {
				continue
			}
			for _, w := range W.paths {
				if covers(p, w) {
					add(w, modeOpen)
					sp.verdict = mayReject
					hit = true
				}
			}
			if !hit {
				cls := "accept-outside-W/disjoint"
				if inflated(M.paths, W.paths) {
					cls = "accept-outside-W/disjoint+ancestor-of-several-W-paths-in-M"
				}
				return spec{verdict: mustReject, rejectClass: cls, why: "update path " + p + " has no overlap with the writable fields " + W.String()}
			}
		}
	}
	// drop regions covered by another region; a covering region that is judged strictly wins, unless the covered
	// one was open (then nothing below is asserted beyond the frame, which the covering region subsumes anyway).
	for _, q := range order {
		covered := false
		for _, t := range order {
			if t != q && (t == "" || covers(t, q)) {
				covered = true
			}
		}
		if covered {
			continue
		}
		r := region{path: q, mode: regs[q]}
		if q != "" {
			r.fd = fieldOf(md, q)
		}
		if !M.isNil {
			for _, p := range M.paths {
				if p != q && covers(q, p) {
					r.overlap = true
				}
			}
		}
		sp.regions = append(sp.regions, r)
	}
	sort.Slice(sp.regions, func(i, j int) bool { return sp.regions[i].path < sp.regions[j].path })

	base := func() protoreflect.Message {
		if old == nil {
			return src.ProtoReflect().New()
		}
		return proto.Clone(old).ProtoReflect()
	}
	cands := []protoreflect.Message{base()}
	srcR := src.ProtoReflect()
	for _, rg := range sp.regions {
		if rg.mode == modeOpen {
			continue
		}
		var next []protoreflect.Message
		for _, c := range cands {
			next = append(next, applyRegion(c, srcR, rg)...)
		}
		cands = next
		if len(cands) > 256 {
			cands = cands[:256]
		}
	}
	for _, c := range cands {
		for _, rp := range sp.reset {
			if h, fd, ok := vk.GetPath(c, rp); ok {
				h.Clear(fd)
			}
		}
		sp.cands = append(sp.cands, c.Interface())
	}
	mg := base().Interface()
	proto.Merge(mg, src)
	sp.merged = mg
	return sp
}

// inflated reports whether some update path is a strict ancestor of two or more writable paths (the situation in
// which counting intersection paths can hide an unwritable update path).
func inflated(M, W []string) bool {
	for _, p := range M {
		n := 0
		seen := map[string]bool{}
		for _, w := range W {
			if w != p && covers(p, w) && !seen[w] {
				seen[w] = true
				n++
			}
		}
		if n >= 2 {
			return true
		}
	}
	return false
}

func mutPath(m protoreflect.Message, path string) (protoreflect.Message, protoreflect.FieldDescriptor) {
	segs := strings.Split(path, ".")
	cur := m
	for i, s := range segs {
		fd := cur.Descriptor().Fields().ByName(protoreflect.Name(s))
		if i == len(segs)-1 {
			return cur, fd
		}
		cur = cur.Mutable(fd).Message()
	}
	return nil, nil
}

// applyRegion returns the acceptable results of updating region rg of c (consumed) from src.
func applyRegion(c, src protoreflect.Message, rg region) []protoreflect.Message {
	q := rg.path
	if q == "" { // whole message: only with no update mask and everything writable
		return []protoreflect.Message{proto.Clone(src.Interface()).ProtoReflect()}
	}
	replace := rg.mode == modeReplace
	sh, sfd, sok := vk.GetPath(src, q)
	has := sok && sh.Has(sfd)
	composite := isComposite(rg.fd)
	clearIt := func(m protoreflect.Message) protoreflect.Message {
		if h, f, ok := vk.GetPath(m, q); ok {
			h.Clear(f)
		}
		return m
	}
	if !has {
		if replace || !composite {
			return []protoreflect.Message{clearIt(c)}
		}
		// absent message/list/map named by an update path: field_mask.proto reads "merge/append nothing" or, by
		// its reset rule, "set to default"; both accepted.
		keep := proto.Clone(c.Interface()).ProtoReflect()
		return []protoreflect.Message{clearIt(c), keep}
	}
	h, f := mutPath(c, q)
	one := func(m protoreflect.Message, fd protoreflect.FieldDescriptor) protoreflect.Message {
		tmp := m.New()
		tmp.Set(fd, m.Get(fd))
		return proto.Clone(tmp.Interface()).ProtoReflect()
	}
	if replace || !composite {
		h.Set(f, one(sh, sfd).Get(f))
		return []protoreflect.Message{c}
	}
	// message: merge; list: append; map: overlay per key  (== proto.Merge restricted to this field)
	dst := h.New()
	if h.Has(f) {
		dst = one(h, f)
	}
	proto.Merge(dst.Interface(), one(sh, sfd).Interface())
	h.Set(f, dst.Get(f))
	return []protoreflect.Message{c}
}

// ---------------------------------------------------------------------------------------------------------------

type finding struct {
	key    string
	detail string
}

func kindOf(fd protoreflect.FieldDescriptor) string {
	switch {
	case fd == nil:
		return "root"
	case fd.IsMap():
		return "map"
	case fd.IsList():
		return "repeated"
	case fd.Message() != nil:
		return "msgfield"
	default:
		return "scalar"
	}
}

func subFlat(flat map[string]string, q string, skip []string) map[string]string {
	out := map[string]string{}
outer:
	for p, v := range flat {
		if !under(p, q) {
			continue
		}
		for _, s := range skip {
			if under(p, s) {
				continue outer
			}
		}
		out[p] = v
	}
	return out
}

func sameMap(a, b map[string]string) bool {
	if len(a) != len(b) {
		return false
	}
	for k, v := range a {
		if bv, ok := b[k]; !ok || bv != v {
			return false
		}
	}
	return true
}

func hasField(flat map[string]string, path string) bool {
	if _, ok := flat[path]; ok {
		return true
	}
	_, ok := flat[path+"/"]
	return ok
}

// oneofExcused: leaf l (changed outside every region) was necessarily cleared because a sibling arm of a oneof
// on l's path was written by this update (or had to be created to reach a region below it).
func oneofExcused(md protoreflect.MessageDescriptor, l string, fgot, fsrc map[string]string, touched []string) bool {
	if _, still := fgot[l]; still {
		return false
	}
	segs := strings.Split(strings.TrimSuffix(l, "/"), ".")
	prefix := ""
	for _, s := range segs {
		if md == nil {
			return false
		}
		fd := md.Fields().ByName(protoreflect.Name(s))
		if fd == nil {
			return false
		}
		if oo := fd.ContainingOneof(); oo != nil && !oo.IsSynthetic() {
			for i := 0; i < oo.Fields().Len(); i++ {
				g := oo.Fields().Get(i)
				if g == fd {
					continue
				}
				hg := prefix + string(g.Name())
				if !hasField(fgot, hg) && !hasField(fsrc, hg) {
					continue // the sibling arm was neither written nor is it set now (a reset path may have cleared it again)
				}
				for _, q := range touched {
					if covers(hg, q) {
						return true
					}
				}
			}
		}
		prefix += s + "."
		md = fd.Message()
		if fd.IsList() || fd.IsMap() {
			md = nil
		}
	}
	return false
}

// frameClass classifies a leaf that changed outside M∩W by its relation to M, to W, how it changed and whether the
// written message has the message that the leaf shares with the related update path.
func frameClass(l string, M, W mask, fold, fgot, fsrc map[string]string) string {
	lp := strings.TrimSuffix(l, "/")
	relM, shared := "unrelated-to-M", ""
	switch {
	case M.isNil:
		relM = "M-nil"
	default:
		for _, p := range M.paths {
			if covers(p, lp) && len(p) > len(shared) { // the deepest update path above the leaf
				relM, shared = "under-M-path", p
			}
		}
		if shared == "" {
			best := ""
			for _, p := range M.paths {
				// longest common proper message prefix of p and lp
				ps, ls := strings.Split(p, "."), strings.Split(lp, ".")
				n := 0
				for n < len(ps)-1 && n < len(ls)-1 && ps[n] == ls[n] {
					n++
				}
				if n > 0 {
					if c := strings.Join(ps[:n], "."); len(c) > len(best) {
						best = c
					}
				}
			}
			if best != "" {
				relM, shared = "sibling-of-M-path", best
			}
		}
	}
	relW := "writable"
	if !W.isNil {
		relW = "outside-W"
		for _, w := range W.paths {
			if covers(w, lp) {
				relW = "writable"
			}
		}
	}
	change := "other-value"
	gv, gok := fgot[l]
	sv, sok := fsrc[l]
	switch {
	case !gok:
		change = "cleared"
	case sok && gv == sv:
		change = "took-written-value"
	case fold[l] == "":
		change = "appeared"
	}
	anc := ""
	if shared != "" {
		if hasField(fsrc, shared) {
			anc = "/written-has-shared-ancestor"
		} else {
			anc = "/written-lacks-shared-ancestor"
		}
	}
	return relM + "/" + relW + "/" + change + anc
}

// checkMerge compares the result of a successful write with the reference; every failed clause is one finding.
func checkMerge(old, src, got proto.Message, M, W mask, sp spec) []finding {
	md := src.ProtoReflect().Descriptor()
	if old == nil {
		old = src.ProtoReflect().New().Interface()
	}
	fold, fgot, fsrc := vk.Flatten(old), vk.Flatten(got), vk.Flatten(src)
	var out []finding
	seenKey := map[string]bool{}
	report := func(key, detail string) {
		if !seenKey[key] {
			seenKey[key] = true
			out = append(out, finding{key, detail})
		}
	}
	leaves := func(ms ...map[string]string) []string {
		set := map[string]bool{}
		for _, m := range ms {
			for k := range m {
				set[k] = true
			}
		}
		ks := make([]string, 0, len(set))
		for k := range set {
			ks = append(ks, k)
		}
		sort.Strings(ks)
		return ks
	}

	if sp.noChange {
		for _, l := range leaves(fold, fgot) {
			if fold[l] == fgot[l] {
				continue
			}
			inReset := false
			for _, rp := range sp.reset {
				if under(l, rp) || above(l, rp) {
					inReset = true
				}
			}
			if inReset {
				continue // whether the reset mask applies with an empty update mask is left open
			}
			report("C05/empty-mask/changed", fmt.Sprintf("empty non-nil update mask changed %s: %q -> %q", l, fold[l], fgot[l]))
		}
		return out
	}

	var touched, written []string
	for _, rg := range sp.regions {
		touched = append(touched, rg.path)
		written = append(written, rg.path)
	}
	touched = append(touched, sp.reset...)

	// frame
	for _, l := range leaves(fold, fgot) {
		if fold[l] == fgot[l] {
			continue
		}
		inside := false
		for _, q := range touched {
			if under(l, q) || above(l, q) {
				inside = true
				break
			}
		}
		if inside || oneofExcused(md, l, fgot, fsrc, written) {
			continue
		}
		report("C05/frame/"+frameClass(l, M, W, fold, fgot, fsrc),
			fmt.Sprintf("leaf %s lies outside M∩W (regions %v, reset %v) but changed: %q -> %q", l, regionPaths(sp.regions), sp.reset, fold[l], fgot[l]))
	}

	// reset
	for _, rp := range sp.reset {
		if len(subFlat(fgot, rp, nil)) == 0 {
			continue
		}
		rel := "outside-update-region"
		for _, rg := range sp.regions {
			if covers(rg.path, rp) || rg.path == "" || covers(rp, rg.path) {
				rel = "inside-update-region"
			}
		}
		if hasField(fsrc, rp) {
			rel += "/written-has-it"
		} else {
			rel += "/written-lacks-it"
		}
		if overlapsAround(sp.reset, rp) {
			rel = "reset-mask-with-parent-and-child-paths"
		}
		if sp.nothingW {
			rel = "nothing-writable"
		}
		report("C05/reset/"+rel, fmt.Sprintf("reset path %s is still set after the write: %v", rp, subFlat(fgot, rp, nil)))
	}

	// regions
	candFlat := make([]map[string]string, len(sp.cands))
	for i, c := range sp.cands {
		candFlat[i] = vk.Flatten(c)
	}
	fmerged := vk.Flatten(sp.merged)
	for _, rg := range sp.regions {
		if rg.mode == modeOpen {
			for l, gv := range subFlat(fgot, rg.path, sp.reset) {
				if strings.HasSuffix(l, "/") {
					continue
				}
				if gv == fold[l] || gv == fsrc[l] || gv == fmerged[l] {
					continue
				}
				report("C05/open-region/value-from-nowhere", fmt.Sprintf("leaf %s in writable region %s (below an update path) is %q: neither the old, the written nor the merged value", l, rg.path, gv))
			}
			continue
		}
		g := subFlat(fgot, rg.path, sp.reset)
		ok := false
		for _, cf := range candFlat {
			if sameMap(subFlat(cf, rg.path, sp.reset), g) {
				ok = true
				break
			}
		}
		if ok {
			continue
		}
		srcHas := "written-lacks-it"
		if rg.path == "" || hasField(fsrc, rg.path) {
			srcHas = "written-has-it"
		}
		key := "C05/" + kindOf(rg.fd) + "/" + rg.mode.String() + "/" + srcHas
		switch {
		case overlapsAround(W.paths, rg.path):
			// the writable mask lists a path and one of its descendants around this region
			key = "C05/writable-mask-with-parent-and-child-paths/" + rg.mode.String()
		case rg.overlap:
			key = "C05/update-mask-with-parent-and-child-paths/" + srcHas
		}
		report(key, fmt.Sprintf("region %q (%s, %s): result %v matches none of the acceptable results %v", rg.path, kindOf(rg.fd), rg.mode, g, candRegion(candFlat, rg.path, sp.reset)))
	}
	return out
}

// overlapsAround reports whether paths contains a path a and a strict descendant of it, with a at, above or below q
// (so that the narrower path can change what the mask means for q).
func overlapsAround(paths []string, q string) bool {
	for _, a := range paths {
		for _, b := range paths {
			if a != b && covers(a, b) && (covers(a, q) || covers(q, a)) {
				return true
			}
		}
	}
	return false
}

func regionPaths(rs []region) []string {
	out := make([]string, len(rs))
	for i, r := range rs {
		out[i] = r.path + ":" + r.mode.String()
	}
	return out
}

func candRegion(cf []map[string]string, q string, skip []string) []map[string]string {
	var out []map[string]string
	for i, c := range cf {
		if i >= 3 {
			break
		}
		out = append(out, subFlat(c, q, skip))
	}
	return out
}
