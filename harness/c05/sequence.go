package main

import (
	"fmt"
	"strings"

	"google.golang.org/grpc/codes"
	"google.golang.org/protobuf/proto"
	"google.golang.org/protobuf/types/known/fieldmaskpb"

	tp "github.com/smart-core-os/sc-golang/internal/testproto"
	"github.com/smart-core-os/sc-golang/internal/verif/vk"
	"github.com/smart-core-os/sc-golang/pkg/resource"
)

// sequences: many writes on ONE resource whose writable fields are {default_int32, default_string}. The per-call
// options WithMoreWritable*/WithAllFieldsWritable apply to their own call only; what a write may touch must not
// depend on what earlier writes were allowed to touch (on the same item or on another item of the collection).
// The messages only use four scalars, so the expected result is computed directly from the statement.
func sequences(r *vk.Run) {
	n := r.Pick(400, 20000)
	for i := 0; i < n; i++ {
		if !r.Mine(i) {
			continue
		}
		rng := r.CaseRand("c05-seq", i)
		isValue := rng.Bool()
		W := &fieldmaskpb.FieldMask{Paths: []string{"default_int32", "default_string"}}
		init := func() *tp.TestAllTypes {
			return &tp.TestAllTypes{DefaultInt32: 1, DefaultString: "s", DefaultInt64: 100, DefaultBool: true}
		}
		var val *resource.Value
		var col *resource.Collection
		state := map[string]*tp.TestAllTypes{}
		if isValue {
			val = resource.NewValue(resource.WithWritableFields(W), resource.WithInitialValue(init()))
			state[""] = init()
		} else {
			col = resource.NewCollection(resource.WithWritableFields(W), resource.WithInitialRecord("a", init()), resource.WithInitialRecord("b", init()))
			state["a"], state["b"] = init(), init()
		}
		var trace []string
		steps := rng.Range(3, 12)
		for s := 0; s < steps; s++ {
			id := ""
			if !isValue {
				id = []string{"a", "b"}[rng.Intn(2)]
			}
			src := &tp.TestAllTypes{DefaultInt32: int32(rng.Range(2, 9)), DefaultString: fmt.Sprintf("w%d", s), DefaultInt64: int64(rng.Range(200, 900)), DefaultBool: rng.Bool()}
			// effective writable set of this call and update mask
			w := map[string]bool{"default_int32": true, "default_string": true}
			var opts []resource.WriteOption
			var optNames []string
			switch rng.Intn(4) {
			case 0:
				opts = append(opts, resource.WithMoreWritablePaths("default_int64"))
				w["default_int64"] = true
				optNames = append(optNames, "more(default_int64)")
			case 1:
				if rng.Chance(1, 3) {
					opts = append(opts, resource.WithAllFieldsWritable())
					w["default_int64"], w["default_bool"] = true, true
					optNames = append(optNames, "all-writable")
				}
			}
			var M []string
			nilM := true
			if rng.Chance(1, 2) {
				nilM = false
				pool := []string{"default_int32", "default_string", "default_int64", "default_bool"}
				for k := rng.Range(1, 2); k > 0; k-- {
					p := pool[rng.Intn(4)]
					dup := false
					for _, q := range M {
						dup = dup || q == p
					}
					if !dup {
						M = append(M, p)
					}
				}
				opts = append(opts, resource.WithUpdatePaths(M...))
				optNames = append(optNames, fmt.Sprintf("mask%v", M))
			}
			// expectation
			cur := state[id]
			want := proto.Clone(cur).(*tp.TestAllTypes)
			mustReject := false
			touch := func(f string) {
				switch f {
				case "default_int32":
					want.DefaultInt32 = src.DefaultInt32
				case "default_string":
					want.DefaultString = src.DefaultString
				case "default_int64":
					want.DefaultInt64 = src.DefaultInt64
				case "default_bool":
					want.DefaultBool = src.DefaultBool
				}
			}
			if nilM {
				for f := range w {
					touch(f)
				}
			} else {
				for _, f := range M {
					if !w[f] {
						mustReject = true
					}
				}
				if !mustReject {
					for _, f := range M {
						touch(f)
					}
				}
			}
			var got proto.Message
			var err error
			if isValue {
				got, err = val.Set(proto.Clone(src), opts...)
			} else {
				got, err = col.Update(id, proto.Clone(src), opts...)
			}
			var after proto.Message
			if isValue {
				after = val.Get()
			} else {
				after, _ = col.Get(id)
			}
			op := strings.Join(optNames, "+")
			if op == "" {
				op = "plain"
			}
			trace = append(trace, fmt.Sprintf("write(%q, %s) [%s] -> %v %s", id, vk.JSON(src), op, codeOf(err), vk.JSON(got)))
			r.Eval(1)
			r.Count("sequence-writes", 1)
			r.Distinct(fmt.Sprintf("seq:%v:%s:%v", isValue, op, mustReject))
			replay := map[string]any{"case": i, "trace": trace}
			cls := "plain"
			if len(optNames) > 0 {
				cls = strings.Split(strings.Split(optNames[0], "(")[0], "[")[0]
			}
			switch {
			case mustReject && err == nil:
				r.Violation("C05/sequence/accept-outside-W/"+cls, fmt.Sprintf("case %d: update mask %v names a field outside this call's writable fields but the write was accepted\n%s", i, M, strings.Join(trace, "\n")), replay)
				state[id] = proto.Clone(after).(*tp.TestAllTypes)
			case mustReject && codeOf(err) != codes.InvalidArgument:
				r.Violation("C05/sequence/reject-code/"+cls, fmt.Sprintf("case %d: rejected with %v instead of InvalidArgument\n%s", i, codeOf(err), strings.Join(trace, "\n")), replay)
			case mustReject:
				if !proto.Equal(after, cur) {
					r.Violation("C05/sequence/reject-changed/"+cls, fmt.Sprintf("case %d: a rejected write changed the stored value to %s\n%s", i, vk.JSON(after), strings.Join(trace, "\n")), replay)
					state[id] = proto.Clone(after).(*tp.TestAllTypes)
				}
			case err != nil:
				r.Count("sequence-valid-write-rejected(not judged)", 1)
			default:
				if !proto.Equal(got, want) || !proto.Equal(after, want) {
					r.Violation("C05/sequence/frame-or-region/"+cls, fmt.Sprintf("case %d: stored %s, returned %s, the statement gives %s (writable for this call: %v)\n%s", i, vk.JSON(after), vk.JSON(got), vk.JSON(want), keys(w), strings.Join(trace, "\n")), replay)
				}
				state[id] = proto.Clone(after).(*tp.TestAllTypes)
			}
			// the other item of a collection must be untouched
			if !isValue {
				other := "a"
				if id == "a" {
					other = "b"
				}
				if m, ok := col.Get(other); !ok || !proto.Equal(m, state[other]) {
					r.Violation("C05/sequence/other-item-changed", fmt.Sprintf("case %d: item %q changed to %s\n%s", i, other, vk.JSON(m), strings.Join(trace, "\n")), replay)
					break
				}
			}
		}
		if r.WantSample("sequence") {
			r.Sample("sequence", trace)
		}
	}
	r.Require("sequence-writes", 1000)
}

func keys(m map[string]bool) []string {
	var out []string
	for _, k := range []string{"default_int32", "default_string", "default_int64", "default_bool"} {
		if m[k] {
			out = append(out, k)
		}
	}
	return out
}

// sharedMaskSequences: the caller keeps ONE update mask object and passes it to several writes (on a Value, on two
// items of a Collection, on two resources). Some of those writes also carry WithMoreUpdateMask / WithMoreUpdatePaths,
// which widen the mask of THAT call only. The mask object the caller owns must come out unchanged, and a later write
// that passes it again touches exactly the fields it names.
func sharedMaskSequences(r *vk.Run) {
	n := r.Pick(200, 10000)
	fields := []string{"default_int32", "default_string", "default_int64", "default_bool"}
	for i := 0; i < n; i++ {
		if !r.Mine(i) {
			continue
		}
		rng := r.CaseRand("c05-shared-mask", i)
		init := func() *tp.TestAllTypes {
			return &tp.TestAllTypes{DefaultInt32: 1, DefaultString: "s", DefaultInt64: 100, DefaultBool: true}
		}
		val := resource.NewValue(resource.WithInitialValue(init()))
		col := resource.NewCollection(resource.WithInitialRecord("a", init()), resource.WithInitialRecord("b", init()))
		state := map[string]*tp.TestAllTypes{"value": init(), "a": init(), "b": init()}
		own := fields[rng.Intn(len(fields))]
		shared := &fieldmaskpb.FieldMask{Paths: []string{own}}
		var trace []string
		steps := rng.Range(2, 6)
		for s := 0; s < steps; s++ {
			target := []string{"value", "a", "b"}[rng.Intn(3)]
			src := &tp.TestAllTypes{DefaultInt32: int32(rng.Range(2, 9)), DefaultString: fmt.Sprintf("w%d", s), DefaultInt64: int64(rng.Range(200, 900)), DefaultBool: s%2 == 0}
			opts := []resource.WriteOption{resource.WithUpdateMask(shared)}
			touched := map[string]bool{own: true}
			how := "mask(shared)"
			if s == 0 || rng.Chance(1, 3) {
				extra := fields[rng.Intn(len(fields))]
				if rng.Bool() {
					opts = append(opts, resource.WithMoreUpdatePaths(extra))
				} else {
					opts = append(opts, resource.WithMoreUpdateMask(&fieldmaskpb.FieldMask{Paths: []string{extra}}))
				}
				touched[extra] = true
				how += "+more(" + extra + ")"
			}
			want := proto.Clone(state[target]).(*tp.TestAllTypes)
			for f := range touched {
				switch f {
				case "default_int32":
					want.DefaultInt32 = src.DefaultInt32
				case "default_string":
					want.DefaultString = src.DefaultString
				case "default_int64":
					want.DefaultInt64 = src.DefaultInt64
				case "default_bool":
					want.DefaultBool = src.DefaultBool
				}
			}
			var got proto.Message
			var err error
			if target == "value" {
				got, err = val.Set(proto.Clone(src), opts...)
			} else {
				got, err = col.Update(target, proto.Clone(src), opts...)
			}
			trace = append(trace, fmt.Sprintf("write %s on %s with %s -> %v", vk.JSON(src), target, how, err))
			r.Eval(1)
			r.Count("shared-mask-writes", 1)
			replay := map[string]any{"case": i, "trace": trace}
			if err != nil {
				r.Violation("C05/sequence/shared-mask/rejected", fmt.Sprintf("a write with a valid mask failed: %v\n%s", err, strings.Join(trace, "\n")), replay)
				break
			}
			state[target] = want
			if !proto.Equal(got, want) {
				r.Violation("C05/sequence/shared-mask/outside-mask-changed", fmt.Sprintf("the caller's mask object names %q; after this write the item is %s, the statement gives %s\n%s", own, vk.JSON(got), vk.JSON(want), strings.Join(trace, "\n")), replay)
				break
			}
			if len(shared.Paths) != 1 || shared.Paths[0] != own {
				r.Violation("C05/sequence/shared-mask/callers-mask-edited", fmt.Sprintf("the caller's mask object was %q and now reads %v\n%s", own, shared.Paths, strings.Join(trace, "\n")), replay)
				break
			}
		}
		r.Distinct(fmt.Sprintf("shared-mask|%s|%d", own, steps))
	}
	r.Require("shared-mask-writes", 200)
}
