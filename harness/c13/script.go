package main

import (
	"fmt"
	"strings"

	"github.com/smart-core-os/sc-golang/internal/verif/vk"
)

// Call shapes.
const (
	Unary   = "unary"   // generated client Unary (cc.Invoke) with grpc.Header / grpc.Trailer call options
	SStream = "sstream" // generated client ServerStream
	CStream = "cstream" // generated client ClientStream
	Bidi    = "bidi"    // generated client BidiStream
	UAS     = "uas"     // the unary method driven through cc.NewStream with a non-streaming StreamDesc
)

var shapes = []string{Unary, SStream, CStream, Bidi, UAS}

// Step operations of a lock-step call script. Every step is completed (by every party taking part in it) before
// the next one starts, with the one exception of the client's final blocking call of the single-response shapes
// (Invoke, CloseAndRecv, the RecvMsg of unary-as-stream) which is started where the script says and awaited at CR.
const (
	CS = "CS" // client Send(next message)  +  server Recv            (cstream, bidi)
	CC = "CC" // client CloseSend                                      (bidi)
	CF = "CF" // client starts its final call CloseAndRecv             (cstream)
	SE = "SE" // server Recv, expects end of client stream (io.EOF)    (after CC / CF)
	SS = "SS" // server Send(next message)  +  client Recv             (sstream, bidi; cstream: SendAndClose, client in CF)
	HS = "HS" // server SetHeader(key K)
	HD = "HD" // server SendHeader(key K)
	TS = "TS" // server SetTrailer(key K)
	CH = "CH" // client Header() while the call is open (only once the header is known to have been sent)
	XC = "XC" // client cancels its context
	XD = "XD" // client context ends with DeadlineExceeded
	SW = "SW" // server waits for its context to end
	SR = "SR" // server Recv after the client went away, expects an error (cstream, bidi)
	RT = "RT" // server handler returns Err ("" = nil; unary shapes: with the response message)
	CR = "CR" // client reads the terminal outcome (stream shapes: Recv; single-response shapes: awaits the final call)
)

// Step is one step of a script.
type Step struct {
	Op  string `json:"op"`
	K   int    `json:"k,omitempty"`   // metadata variant for HS/HD/TS
	Err string `json:"err,omitempty"` // for RT
}

func (s Step) String() string {
	switch s.Op {
	case HS, HD, TS:
		return fmt.Sprintf("%s%d", s.Op, s.K)
	case RT:
		if s.Err == "" {
			return "RT"
		}
		return "RT(" + s.Err + ")"
	}
	return s.Op
}

// Context modes.
const (
	Live         = "live"
	PreCancelled = "pre-cancelled"
	PreExpired   = "pre-expired" // context.WithDeadline in the past
)

// Script is one call script.
type Script struct {
	Shape string `json:"shape"`
	Ctx   string `json:"ctx"`
	Steps []Step `json:"steps"`
}

func (s *Script) String() string {
	var sb strings.Builder
	sb.WriteString(s.Shape)
	if s.Ctx != Live {
		sb.WriteString("[" + s.Ctx + "]")
	}
	for _, st := range s.Steps {
		sb.WriteByte(' ')
		sb.WriteString(st.String())
	}
	return sb.String()
}

// Error kinds a handler can return.
var errKinds = []string{"notfound", "plain", "ctx-canceled", "ctx-deadline", "internal-empty", "wrapped", "aborted-long", "status-canceled", "status-deadline"}

func single(shape string) bool { return shape == Unary || shape == UAS || shape == CStream }

// state is the validity automaton of scripts; it is also what the classifier reads.
type state struct {
	shape                        string
	cSent, sSent                 int
	cClosed, cFinal              bool
	seDone                       bool
	hdrSet, hdrSent, hdrSetLate  bool
	hdrSentTwice                 bool
	trSet, trAfterResp, trAfterX bool
	hdrAfterX                    bool
	x                            string // "", XC, XD
	xObserved                    bool   // server did SW or SR after x
	crBeforeReturn               bool
	returned                     bool
	retErr                       string
	cr                           bool
	respSent                     bool // single-response shapes: the response has been handed over (cstream SS)
	ch                           int
	errAfterResp                 bool
	xAfterResp                   bool
	srvMsgsBeforeHdr             bool
	hdCount                      int
}

// allowed reports whether st may follow in state s (the lock-step and in-scope rules of the property).
func (s *state) allowed(st Step) bool {
	if s.cr && (s.returned || s.x != "") && st.Op != "" {
		// the terminal outcome has been consumed and the server is done or released: only server-side
		// observation of the cancel may still follow
		if s.x != "" && !s.returned {
			switch st.Op {
			case SW, SR, RT, HS, TS:
			default:
				return false
			}
		} else {
			return false
		}
	}
	switch st.Op {
	case CS:
		return (s.shape == CStream || s.shape == Bidi) && !s.cClosed && !s.cFinal && s.x == "" && !s.returned && s.cSent < 5
	case CC:
		return s.shape == Bidi && !s.cClosed && s.x == "" && !s.returned
	case CF:
		return s.shape == CStream && !s.cFinal && s.x == "" && !s.returned
	case SE:
		return (s.cClosed || s.cFinal) && !s.seDone && s.x == "" && !s.returned && (s.shape == Bidi || s.shape == CStream) && !s.respSent
	case SS:
		if s.x != "" || s.returned || s.sSent >= 5 {
			return false
		}
		switch s.shape {
		case SStream, Bidi:
			return true
		case CStream:
			return s.cFinal && !s.respSent
		}
		return false
	case HS, HD, TS:
		if s.returned {
			return false
		}
		if st.Op == HD && s.x != "" {
			return false // SendHeader after the client went away: nothing the client can observe, transport dependent result
		}
		return true
	case CH:
		return (s.shape == SStream || s.shape == Bidi) && s.hdrSent && s.x == "" && !s.returned && !s.cr
	case XC, XD:
		return s.x == "" && !s.returned
	case SW:
		return s.x != "" && !s.returned && !s.xObserved
	case SR:
		// a Recv only observes that the client went away while the client's stream is still open (after a half-close
		// the buffered end-of-stream is what Recv reports, on either transport)
		return s.x != "" && !s.returned && !s.xObserved && (s.shape == CStream || s.shape == Bidi) && !s.respSent && !s.cClosed && !s.cFinal
	case RT:
		if s.returned {
			return false
		}
		if s.x != "" {
			return s.xObserved
		}
		if st.Err == "" && (s.shape == CStream) && !s.respSent {
			return false // a client-streaming handler that returns nil without SendAndClose: server misuse, out of scope
		}
		return true
	case CR:
		if s.cr {
			return false
		}
		return s.returned || s.x != ""
	}
	return false
}

func (s *state) apply(st Step) {
	switch st.Op {
	case CS:
		s.cSent++
	case CC:
		s.cClosed = true
	case CF:
		s.cFinal = true
	case SE:
		s.seDone = true
	case SS:
		if !s.hdrSent && !s.hdrSet {
			s.srvMsgsBeforeHdr = true
		}
		s.sSent++
		s.hdrSent = true
		if s.shape == CStream {
			s.respSent = true
		}
	case HS:
		if s.hdrSent {
			s.hdrSetLate = true
		} else {
			s.hdrSet = true
		}
		if s.x != "" {
			s.hdrAfterX = true
		}
	case HD:
		if s.hdrSent {
			s.hdrSentTwice = true
		}
		s.hdrSent = true
		s.hdrSet = true
		s.hdCount++
	case TS:
		s.trSet = true
		if s.respSent {
			s.trAfterResp = true
		}
		if s.x != "" {
			s.trAfterX = true
		}
	case CH:
		s.ch++
	case XC, XD:
		s.x = st.Op
		if s.respSent {
			s.xAfterResp = true
		}
	case SW, SR:
		s.xObserved = true
	case RT:
		s.returned = true
		s.retErr = st.Err
		if s.x != "" && s.cr {
			s.crBeforeReturn = true
		}
		if s.respSent && st.Err != "" {
			s.errAfterResp = true
		}
	case CR:
		s.cr = true
	}
}

// complete reports whether the script may end here: the client has consumed the terminal outcome and the server
// handler has returned (so the leak oracle applies).
func (s *state) complete() bool { return s.cr && s.returned }

// analyse replays a script on the automaton; ok is false when the script breaks a rule.
func analyse(sc *Script) (st state, ok bool) {
	st.shape = sc.Shape
	if sc.Ctx != Live {
		return st, len(sc.Steps) == 0
	}
	for _, step := range sc.Steps {
		if !st.allowed(step) {
			return st, false
		}
		st.apply(step)
	}
	return st, st.complete()
}

// ---- classes used in violation keys (discrete, seed independent) ----

// ending is the (fine) class of how the call ends; used for the terminal, messages, server-received, hang, leak and
// crash clauses.
func ending(sc *Script, s *state) string {
	if sc.Ctx != Live {
		return sc.Ctx
	}
	if s.x != "" {
		e := "cancel"
		if s.x == XD {
			e = "deadline"
		}
		switch {
		case s.xAfterResp:
			e += "-after-response"
		case s.retErr != "ctx-err":
			e += "-then-server-result"
		}
		return e
	}
	if s.errAfterResp {
		return "error-after-response"
	}
	switch s.retErr {
	case "":
		return "ok"
	case "ctx-canceled", "ctx-deadline", "status-canceled", "status-deadline":
		return "server-returns-" + s.retErr
	}
	return "error"
}

// coarseEnding is the ending class used with the metadata clauses.
func coarseEnding(sc *Script, s *state) string {
	if sc.Ctx != Live {
		return sc.Ctx
	}
	e := "ok"
	switch {
	case s.x == XC:
		e = "cancel"
	case s.x == XD:
		e = "deadline"
	case s.retErr != "":
		e = "error"
	}
	if s.xAfterResp || s.errAfterResp {
		e += "-after-response"
	}
	return e
}

func headerClass(s *state) string {
	delivered := s.sSent > 0 || ((s.shape == Unary || s.shape == UAS) && s.returned && s.retErr == "" && s.x == "")
	switch {
	case s.hdrSetLate:
		return "set-after-sent"
	case s.hdCount > 0:
		return "sent"
	case s.hdrSet && delivered:
		return "set-message"
	case s.hdrSet:
		return "set-no-message"
	}
	return "none"
}

func trailerClass(s *state) string {
	switch {
	case !s.trSet:
		return "none"
	case s.trAfterResp:
		return "set-after-response"
	}
	return "set"
}

// class renders the script class of a clause.
func class(clause string, sc *Script, s *state) string {
	// client-streaming: the single response was handed over and the call then ended differently (error, or the
	// client went away) - everything the client concludes from the early response belongs to one class
	afterResp := s.shape == CStream && s.respSent && (s.xAfterResp || s.errAfterResp)
	switch clause {
	case "header", "header-open":
		h := headerClass(s)
		switch {
		case h == "set-after-sent":
			return h
		case afterResp:
			return "after-response"
		}
		return h + "/" + coarseEnding(sc, s)
	case "trailer":
		switch {
		case s.x != "":
			return "set/" + coarseEnding(sc, s)[:len(coarseEnding(sc, s))-len(suffixAfterResp(s))]
		case s.shape == CStream && s.respSent && (s.trAfterResp || s.errAfterResp):
			return "after-response"
		}
		return trailerClass(s) + "/" + coarseEnding(sc, s)
	}
	if afterResp {
		return "after-response"
	}
	return ending(sc, s)
}

func suffixAfterResp(s *state) string {
	if s.xAfterResp || s.errAfterResp {
		return "-after-response"
	}
	return ""
}

// descriptor is the evidence descriptor of a script: its shape and step sequence without metadata variants.
func descriptor(sc *Script) string { return sc.String() }

// ---- generation ----

// randomScript draws a valid script by a random walk over the automaton.
func randomScript(rng *vk.Rand, shape string) *Script {
	sc := &Script{Shape: shape, Ctx: Live}
	switch rng.Intn(40) {
	case 0:
		sc.Ctx = PreCancelled
		return sc
	case 1:
		sc.Ctx = PreExpired
		return sc
	}
	st := state{shape: shape}
	wantC := rng.Intn(6)
	wantS := rng.Intn(6)
	pX := rng.Intn(4) == 0
	for len(sc.Steps) < 40 && !st.complete() {
		var cand []Step
		add := func(w int, s Step) {
			if st.allowed(s) {
				for i := 0; i < w; i++ {
					cand = append(cand, s)
				}
			}
		}
		if st.cSent < wantC {
			add(6, Step{Op: CS})
		}
		if st.sSent < wantS {
			add(6, Step{Op: SS})
		}
		add(2, Step{Op: CC})
		add(2, Step{Op: CF})
		add(3, Step{Op: SE})
		add(1, Step{Op: HS, K: rng.Intn(4)})
		if !st.hdrSent || rng.Intn(6) == 0 {
			add(1, Step{Op: HD, K: rng.Intn(4)})
		}
		add(1, Step{Op: TS, K: rng.Intn(4)})
		add(1, Step{Op: CH})
		if pX {
			add(1, Step{Op: XC})
			add(1, Step{Op: XD})
		}
		add(4, Step{Op: SW})
		add(2, Step{Op: SR})
		add(4, Step{Op: CR})
		// return
		ret := Step{Op: RT}
		if st.x != "" {
			switch rng.Intn(6) {
			case 0:
				ret.Err = "notfound"
			case 1:
				ret.Err = ""
			default:
				ret.Err = "ctx-err"
			}
			if ret.Err == "" && shape == CStream && !st.respSent {
				ret.Err = "ctx-err"
			}
			add(4, ret)
		} else {
			if rng.Intn(3) == 0 {
				ret.Err = errKinds[rng.Intn(len(errKinds))]
			}
			w := 1
			if st.cSent >= wantC && st.sSent >= wantS {
				w = 8
			}
			add(w, ret)
		}
		if len(cand) == 0 {
			break
		}
		s := cand[rng.Intn(len(cand))]
		st.apply(s)
		sc.Steps = append(sc.Steps, s)
	}
	if !st.complete() {
		// finish deterministically
		for _, s := range []Step{{Op: XC}, {Op: SW}, {Op: RT, Err: "ctx-err"}, {Op: CR}} {
			if st.allowed(s) {
				st.apply(s)
				sc.Steps = append(sc.Steps, s)
			}
		}
	}
	return sc
}

// base returns the canonical successful script of a shape with n client and m server messages.
func base(shape string, n, m int) []Step {
	var s []Step
	switch shape {
	case Unary, UAS:
		s = append(s, Step{Op: RT}, Step{Op: CR})
	case SStream:
		for i := 0; i < m; i++ {
			s = append(s, Step{Op: SS})
		}
		s = append(s, Step{Op: RT}, Step{Op: CR})
	case CStream:
		for i := 0; i < n; i++ {
			s = append(s, Step{Op: CS})
		}
		s = append(s, Step{Op: CF}, Step{Op: SE}, Step{Op: SS}, Step{Op: RT}, Step{Op: CR})
	case Bidi:
		for i := 0; i < n || i < m; i++ {
			if i < n {
				s = append(s, Step{Op: CS})
			}
			if i < m {
				s = append(s, Step{Op: SS})
			}
		}
		s = append(s, Step{Op: CC}, Step{Op: SE}, Step{Op: RT}, Step{Op: CR})
	}
	return s
}

func insert(steps []Step, pos int, ins ...Step) []Step {
	out := make([]Step, 0, len(steps)+len(ins))
	out = append(out, steps[:pos]...)
	out = append(out, ins...)
	out = append(out, steps[pos:]...)
	return out
}

// gridScripts enumerates the bounded position grids: for every shape and message counts (n, m) up to maxMsg, the
// canonical script, and every valid script obtained from it by
//   - inserting one metadata event (or a pair header-event x trailer-event) at every position,
//   - ending it at every position with every error kind,
//   - the client going away (cancel / deadline) at every position, followed by every order of
//     {client reads outcome, server observes and returns (ctx error | other error | nil)},
//   - combining one header event position with one ending position,
//   - the bidi half-close at every position,
//   - pre-cancelled and pre-expired contexts.
func gridScripts(maxMsg int, pairs bool) []*Script {
	var out []*Script
	seen := map[string]bool{}
	emit := func(shape string, steps []Step) {
		sc := &Script{Shape: shape, Ctx: Live, Steps: steps}
		if _, ok := analyse(sc); !ok {
			return
		}
		k := sc.String()
		if seen[k] {
			return
		}
		seen[k] = true
		out = append(out, sc)
	}
	hdrEvents := [][]Step{
		{{Op: HS, K: 0}}, {{Op: HD, K: 1}}, {{Op: HS, K: 0}, {Op: HD, K: 1}}, {{Op: HS, K: 0}, {Op: HS, K: 2}},
		{{Op: HD}}, // SendHeader(nil)
	}
	trEvents := [][]Step{{{Op: TS, K: 0}}, {{Op: TS, K: 0}, {Op: TS, K: 2}}}
	// endings after the client went away
	var gone [][]Step
	for _, x := range []string{XC, XD} {
		for _, obs := range []string{SW, SR} {
			for _, ret := range []string{"ctx-err", "notfound", ""} {
				gone = append(gone,
					[]Step{{Op: x}, {Op: CR}, {Op: obs}, {Op: RT, Err: ret}},
					[]Step{{Op: x}, {Op: obs}, {Op: CR}, {Op: RT, Err: ret}},
					[]Step{{Op: x}, {Op: obs}, {Op: RT, Err: ret}, {Op: CR}},
				)
			}
		}
	}
	for _, shape := range shapes {
		// calls on a dead context: the wrapper's behaviour there goes through selects with several ready cases, so
		// each is executed several times
		for rep := 0; rep < 6; rep++ {
			out = append(out, &Script{Shape: shape, Ctx: PreCancelled}, &Script{Shape: shape, Ctx: PreExpired})
		}
		for n := 0; n <= maxMsg; n++ {
			for m := 0; m <= maxMsg; m++ {
				if (shape == Unary || shape == UAS) && (n > 0 || m > 0) {
					continue
				}
				if shape == SStream && n > 0 {
					continue
				}
				if shape == CStream && m > 0 {
					continue
				}
				b := base(shape, n, m)
				emit(shape, b)
				L := len(b)
				// truncation points: the server returns at position p, the client then reads the outcome
				ends := func(p int, e []Step) []Step {
					pre := append([]Step(nil), b[:p]...)
					// keep a started final call / half close consistent: nothing to fix, the automaton filters
					return append(pre, e...)
				}
				for p := 0; p <= L; p++ {
					for _, ev := range hdrEvents {
						emit(shape, insert(b, p, ev...))
					}
					for _, ev := range trEvents {
						emit(shape, insert(b, p, ev...))
					}
					emit(shape, insert(b, p, Step{Op: CH}))
					emit(shape, insert(b, p, Step{Op: HD, K: 1}, Step{Op: CH}))
					for _, ek := range errKinds {
						emit(shape, ends(p, []Step{{Op: RT, Err: ek}, {Op: CR}}))
						if shape == CStream {
							emit(shape, ends(p, []Step{{Op: CF}, {Op: RT, Err: ek}, {Op: CR}}))
						}
					}
					emit(shape, ends(p, []Step{{Op: RT}, {Op: CR}}))
					for _, g := range gone {
						emit(shape, ends(p, g))
						if shape == CStream {
							emit(shape, ends(p, append([]Step{{Op: CF}}, g...)))
						}
					}
					if shape == Bidi {
						// half close at every position
						var nb []Step
						for _, s := range b {
							if s.Op != CC && s.Op != SE {
								nb = append(nb, s)
							}
						}
						if p <= len(nb) {
							emit(shape, insert(nb, p, Step{Op: CC}))
							emit(shape, insert(nb, p, Step{Op: CC}, Step{Op: SE}))
						}
					}
					if !pairs {
						continue
					}
					// header event at p combined with: trailer event at q, error at q, client gone at q
					for q := p; q <= L; q++ {
						for hi, hev := range hdrEvents[:3] {
							withH := insert(b, p, hev...)
							qq := q + len(hev)
							for _, tev := range trEvents[:1] {
								emit(shape, insert(withH, qq, tev...))
								if q > p {
									emit(shape, insert(insert(b, q, hev...), p, tev...))
								}
							}
							for _, ek := range []string{"notfound", "plain"} {
								emit(shape, append(append([]Step(nil), withH[:qq]...), Step{Op: RT, Err: ek}, Step{Op: CR}))
								emit(shape, append(append([]Step(nil), withH[:qq]...), Step{Op: TS, K: 1}, Step{Op: RT, Err: ek}, Step{Op: CR}))
							}
							if hi < 3 {
								for gi, g := range gone {
									if gi%9 > 2 && gi%9 != 4 { // keep: SW x {ctx-err all orders}, SW x notfound second order
										continue
									}
									emit(shape, append(append([]Step(nil), withH[:qq]...), g...))
									emit(shape, append(append(append([]Step(nil), withH[:qq]...), Step{Op: TS, K: 1}), g...))
									emit(shape, append(append(append([]Step(nil), withH[:qq]...), g[:len(g)-1]...), Step{Op: TS, K: 1}, g[len(g)-1]))
								}
							}
						}
					}
				}
			}
		}
	}
	return out
}
