package main

import (
	"bytes"
	"context"
	"fmt"
	"io"
	"math"
	"sync"
	"sync/atomic"

	"google.golang.org/grpc"
	"google.golang.org/grpc/codes"
	"google.golang.org/grpc/status"
	"google.golang.org/protobuf/proto"
	"google.golang.org/protobuf/reflect/protodesc"
	"google.golang.org/protobuf/reflect/protoreflect"
	"google.golang.org/protobuf/reflect/protoregistry"
	"google.golang.org/protobuf/types/dynamicpb"
	"google.golang.org/protobuf/types/known/emptypb"
	"google.golang.org/protobuf/types/known/durationpb"
	"google.golang.org/protobuf/types/known/timestamppb"

	"github.com/smart-core-os/sc-golang/internal/testproto"
	"github.com/smart-core-os/sc-golang/internal/verif/vk"
	"github.com/smart-core-os/sc-golang/pkg/wrap"
)

// The "copied across the boundary" clause needs messages with reference-typed fields (bytes, repeated, maps, nested
// messages); the TestApi messages only have strings and an int. So a second, hand-written service carries
// testproto.TestAllTypes over a unary and a bidirectional method; it is served by the same bufconn gRPC server and
// by its own wrap.ServerToClient.

type aliasAPI interface {
	aliasScenario() *aliasScn
}

type aliasServer struct{}

var curAlias atomic.Pointer[aliasScn]

func (*aliasServer) aliasScenario() *aliasScn { return curAlias.Load() }

// aliasScn is one aliasing scenario: what the server decodes into and what it answers with.
type aliasScn struct {
	newIn func() proto.Message
	resp  proto.Message

	mu    sync.Mutex
	srvIn proto.Message
}

const (
	aliasEcho = "/verif.c13.Alias/Echo"
	aliasChat = "/verif.c13.Alias/Chat"
)

var aliasDesc = grpc.ServiceDesc{
	ServiceName: "verif.c13.Alias",
	HandlerType: (*aliasAPI)(nil),
	Methods: []grpc.MethodDesc{{
		MethodName: "Echo",
		Handler: func(srv any, ctx context.Context, dec func(any) error, _ grpc.UnaryServerInterceptor) (any, error) {
			a := srv.(aliasAPI).aliasScenario()
			if a == nil {
				return nil, status.Error(codes.FailedPrecondition, "c13: no aliasing scenario")
			}
			in := a.newIn()
			if err := dec(in); err != nil {
				return nil, err
			}
			a.mu.Lock()
			a.srvIn = in
			a.mu.Unlock()
			return a.resp, nil
		},
	}},
	Streams: []grpc.StreamDesc{{
		StreamName:    "Chat",
		ServerStreams: true,
		ClientStreams: true,
		Handler: func(srv any, st grpc.ServerStream) error {
			a := srv.(aliasAPI).aliasScenario()
			if a == nil {
				return status.Error(codes.FailedPrecondition, "c13: no aliasing scenario")
			}
			in := a.newIn()
			if err := st.RecvMsg(in); err != nil {
				return err
			}
			a.mu.Lock()
			a.srvIn = in
			a.mu.Unlock()
			if err := st.SendMsg(a.resp); err != nil {
				return err
			}
			if err := st.RecvMsg(a.newIn()); err != io.EOF {
				return status.Errorf(codes.Internal, "c13: expected end of client stream, got %v", err)
			}
			return nil
		},
	}},
	Metadata: "verif/c13/alias",
}

// copyType is TestAllTypes rebuilt from its descriptor proto into a private registry: same wire format, different
// descriptor identity, so that the wrapper has to take its marshal/unmarshal path.
var copyType protoreflect.MessageDescriptor

func initCopyType() error {
	fdp := protodesc.ToFileDescriptorProto(testproto.File_internal_testproto_test_proto)
	reg := new(protoregistry.Files)
	if err := reg.RegisterFile(timestamppb.File_google_protobuf_timestamp_proto); err != nil {
		return err
	}
	if err := reg.RegisterFile(durationpb.File_google_protobuf_duration_proto); err != nil {
		return err
	}
	fd, err := protodesc.NewFile(fdp, reg)
	if err != nil {
		return err
	}
	copyType = fd.Messages().ByName("TestAllTypes")
	if copyType == nil {
		return fmt.Errorf("TestAllTypes not found in rebuilt file")
	}
	return nil
}

func newGenerated() proto.Message { return new(testproto.TestAllTypes) }
func newDynamic() proto.Message   { return dynamicpb.NewMessage(copyType) }

func wire(m proto.Message) []byte {
	b, err := proto.MarshalOptions{Deterministic: true}.Marshal(m)
	if err != nil {
		return []byte("marshal error: " + err.Error())
	}
	return b
}

// deepMutate changes every value reachable from m in place: bytes are flipped inside their backing array, list
// elements and map values are overwritten, nested messages are visited. It returns the number of places changed.
func deepMutate(m protoreflect.Message) int {
	n := 0
	type setop struct {
		fd protoreflect.FieldDescriptor
		v  protoreflect.Value
	}
	var sets []setop
	m.Range(func(fd protoreflect.FieldDescriptor, v protoreflect.Value) bool {
		switch {
		case fd.IsList():
			l := v.List()
			for i := 0; i < l.Len(); i++ {
				if fd.Message() != nil {
					n += deepMutate(l.Get(i).Message())
				} else {
					if fd.Kind() == protoreflect.BytesKind {
						n += flip(l.Get(i).Bytes())
					}
					l.Set(i, bump(fd, l.Get(i)))
					n++
				}
			}
		case fd.IsMap():
			mp := v.Map()
			mp.Range(func(k protoreflect.MapKey, mv protoreflect.Value) bool {
				if fd.MapValue().Message() != nil {
					n += deepMutate(mv.Message())
				} else {
					if fd.MapValue().Kind() == protoreflect.BytesKind {
						n += flip(mv.Bytes())
					}
					mp.Set(k, bump(fd.MapValue(), mv))
					n++
				}
				return true
			})
		case fd.Message() != nil:
			n += deepMutate(v.Message())
		default:
			if fd.Kind() == protoreflect.BytesKind {
				n += flip(v.Bytes())
			}
			sets = append(sets, setop{fd, bump(fd, v)})
		}
		return true
	})
	for _, s := range sets {
		m.Set(s.fd, s.v)
		n++
	}
	return n
}

func flip(b []byte) int {
	for i := range b {
		b[i] ^= 0xA5
	}
	if len(b) > 0 {
		return 1
	}
	return 0
}

func bump(fd protoreflect.FieldDescriptor, v protoreflect.Value) protoreflect.Value {
	switch fd.Kind() {
	case protoreflect.BoolKind:
		return protoreflect.ValueOfBool(!v.Bool())
	case protoreflect.EnumKind:
		return protoreflect.ValueOfEnum(v.Enum() + 1)
	case protoreflect.Int32Kind, protoreflect.Sint32Kind, protoreflect.Sfixed32Kind:
		return protoreflect.ValueOfInt32(int32(v.Int()) ^ 0x55)
	case protoreflect.Int64Kind, protoreflect.Sint64Kind, protoreflect.Sfixed64Kind:
		return protoreflect.ValueOfInt64(v.Int() ^ 0x55)
	case protoreflect.Uint32Kind, protoreflect.Fixed32Kind:
		return protoreflect.ValueOfUint32(uint32(v.Uint()) ^ 0x55)
	case protoreflect.Uint64Kind, protoreflect.Fixed64Kind:
		return protoreflect.ValueOfUint64(v.Uint() ^ 0x55)
	case protoreflect.FloatKind:
		f := v.Float()
		if math.IsNaN(f) || math.IsInf(f, 0) {
			f = 0
		}
		return protoreflect.ValueOfFloat32(float32(f) + 1.5)
	case protoreflect.DoubleKind:
		f := v.Float()
		if math.IsNaN(f) || math.IsInf(f, 0) {
			f = 0
		}
		return protoreflect.ValueOfFloat64(f + 1.5)
	case protoreflect.StringKind:
		return protoreflect.ValueOfString(v.String() + "~")
	case protoreflect.BytesKind:
		return protoreflect.ValueOfBytes(append([]byte("~"), v.Bytes()...))
	}
	return v
}

var aliasWrapCC = sync.OnceValue(func() grpc.ClientConnInterface {
	return wrap.ServerToClient(aliasDesc, aliasAPI(&aliasServer{}))
})

// aliasCase runs one aliasing scenario: shape unary|bidi, typing same|mixed (mixed: the server decodes into, and
// answers with, a message type of a different descriptor identity).
func (e *env) aliasCase(i int, shape, typing string) {
	r := e.r
	rng := r.CaseRand("alias/"+shape+"/"+typing, i)
	opts := vk.GenOpts{Density: 55, MaxDepth: 2, MaxList: 3, Unknown: false}
	newIn, newSrvMsg := newGenerated, proto.Message(new(testproto.TestAllTypes))
	if typing == "mixed" {
		newIn, newSrvMsg = newDynamic, newDynamic()
	}
	// opaque: both receivers use a type that declares none of the fields (a forwarder, or a client built against an
	// older API): over a real connection everything travels on as unknown fields, nothing is lost
	opaque := typing == "opaque"
	if opaque {
		newIn = func() proto.Message { return new(emptypb.Empty) }
	}
	reveal := func(m proto.Message) proto.Message {
		if !opaque {
			return m
		}
		out := new(testproto.TestAllTypes)
		if err := proto.Unmarshal(wire(m), out); err != nil {
			return m
		}
		return out
	}
	gen := func(like proto.Message) proto.Message {
		for k := 0; ; k++ {
			m := vk.GenMessage(rng, like, opts)
			if len(wire(m)) > 8 || k > 20 {
				return m
			}
		}
	}
	for _, side := range []string{sideReal, sideWrap} {
		req := gen(new(testproto.TestAllTypes))
		resp := gen(newSrvMsg)
		scn := &aliasScn{newIn: newIn, resp: resp}
		curAlias.Store(scn)
		out := proto.Message(new(testproto.TestAllTypes))
		if opaque {
			out = new(emptypb.Empty)
		}
		reqW, respW := wire(req), wire(resp)
		var cc grpc.ClientConnInterface = e.realCC
		var baseline map[int]bool
		if side == sideWrap {
			cc = aliasWrapCC()
			baseline = vk.IDs(vk.Goroutines())
		}
		ctx, cancel := context.WithCancel(context.Background())
		var callErr error
		done := make(chan struct{})
		go func() {
			defer close(done)
			if shape == Unary {
				callErr = cc.Invoke(ctx, aliasEcho, req, out)
				return
			}
			st, err := cc.NewStream(ctx, &grpc.StreamDesc{ServerStreams: true, ClientStreams: true}, aliasChat)
			if err != nil {
				callErr = err
				return
			}
			if callErr = st.SendMsg(req); callErr != nil {
				return
			}
			if callErr = st.RecvMsg(out); callErr != nil {
				return
			}
			if callErr = st.CloseSend(); callErr != nil {
				return
			}
			if err := st.RecvMsg(new(testproto.TestAllTypes)); err != io.EOF {
				callErr = fmt.Errorf("expected io.EOF at the end, got %v", err)
			}
		}()
		if !await(done) {
			if side == sideWrap {
				r.Violation("C13/"+shape+"/hang/rich-message-"+typing, "call with TestAllTypes messages does not complete at a quiescent point", map[string]any{"i": i})
			} else {
				r.Inconclusive("real-side-stuck/alias", "aliasing scenario stuck on the real transport")
			}
			cancel()
			continue
		}
		r.Eval(1)
		r.Count("alias/"+side+"/"+shape+"/"+typing, 1)
		scn.mu.Lock()
		srvIn := scn.srvIn
		scn.mu.Unlock()
		replay := map[string]any{"i": i, "shape": shape, "typing": typing, "side": side}
		if callErr != nil || srvIn == nil {
			if side == sideWrap {
				r.Violation("C13/"+shape+"/terminal/rich-message-"+typing, fmt.Sprintf("call failed on the wrapped side: %v (request %s)", callErr, vk.JSON(req)), replay)
			} else {
				r.Inconclusive("real-side-failed/alias", fmt.Sprintf("aliasing scenario failed on the real transport: %v", callErr))
			}
			cancel()
			continue
		}
		// content: what arrives is what was sent (on both transports)
		if !bytes.Equal(wire(reveal(srvIn)), reqW) {
			if side == sideWrap {
				r.Violation("C13/"+shape+"/server-received/rich-message-"+typing, fmt.Sprintf("server received %s, client sent %s", vk.JSON(srvIn), vk.JSON(req)), replay)
			} else {
				r.Inconclusive("real-side-content/alias", "request changed over the real transport")
			}
		}
		if !bytes.Equal(wire(reveal(out)), respW) {
			if side == sideWrap {
				r.Violation("C13/"+shape+"/messages/rich-message-"+typing, fmt.Sprintf("client received %s, server sent %s", vk.JSON(reveal(out)), vk.JSON(resp)), replay)
			} else {
				r.Inconclusive("real-side-content/alias", "response changed over the real transport")
			}
		}
		if opaque {
			cancel()
			continue // nothing to mutate in a message without declared fields
		}
		if side == sideWrap {
			// isolation: once the call is over, changing one party's copy in place must not show in the other's
			if any(srvIn) == any(req) || any(out) == any(resp) {
				r.Violation("C13/"+shape+"/aliasing/same-pointer/"+typing, "the receiver holds the sender's message object", replay)
			}
			pairs := []struct {
				name         string
				mut, witness proto.Message
			}{
				{"client-changes-request", req, srvIn},
				{"server-changes-received-request", srvIn, req},
				{"server-changes-response", resp, out},
				{"client-changes-received-response", out, resp},
			}
			for _, p := range pairs {
				before := wire(p.witness)
				n := deepMutate(p.mut.ProtoReflect())
				r.Count("alias/places-mutated", n)
				r.Eval(1)
				if after := wire(p.witness); !bytes.Equal(before, after) {
					r.Violation("C13/"+shape+"/aliasing/"+p.name+"/"+typing,
						fmt.Sprintf("after the call finished, mutating one side's message in place changed the other side's copy: now %s", vk.JSON(p.witness)), replay)
				}
			}
			r.Distinct(fmt.Sprintf("alias %s %s %x", shape, typing, reqW))
			// leak oracle
			gs, ok := vk.Quiesce()
			if !ok {
				quiesceWatchdog.Store(true)
			} else {
				r.Count("leak-oracle-applied", 1)
				for _, g := range gs {
					if !baseline[g.ID] && g.Has("sc-golang/pkg/wrap") {
						r.Violation("C13/"+shape+"/leak/rich-message-"+typing, "goroutine left after a finished call: "+g.String(), replay)
						break
					}
				}
			}
		}
		cancel()
	}
}
