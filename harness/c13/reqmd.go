package main

import (
	"context"
	"fmt"

	"google.golang.org/grpc/metadata"

	"github.com/smart-core-os/sc-golang/internal/testproto"
	"github.com/smart-core-os/sc-golang/internal/verif/vk"
)

// requestMetadata: what the handler sees as incoming user metadata must be the same on both transports for every
// kind of client context: without metadata, with outgoing metadata, with INCOMING metadata only (a context derived
// from an enclosing handler's: over a connection none of it travels), with both, and with an empty outgoing set.
func (e *env) requestMetadata() {
	r := e.r
	echoMode.Store(true)
	defer echoMode.Store(false)
	variants := []struct {
		name string
		mk   func(context.Context) context.Context
	}{
		{"none", func(c context.Context) context.Context { return c }},
		{"outgoing", func(c context.Context) context.Context { return metadata.AppendToOutgoingContext(c, "u-a", "1", "u-b", "2", "u-b", "3") }},
		{"incoming-only", func(c context.Context) context.Context {
			return metadata.NewIncomingContext(c, metadata.Pairs("x-user-token", "secret", "u-a", "outer"))
		}},
		{"incoming+outgoing", func(c context.Context) context.Context {
			c = metadata.NewIncomingContext(c, metadata.Pairs("x-user-token", "secret", "u-a", "outer"))
			return metadata.AppendToOutgoingContext(c, "u-a", "1")
		}},
		{"incoming+empty-outgoing", func(c context.Context) context.Context {
			c = metadata.NewIncomingContext(c, metadata.Pairs("x-user-token", "secret"))
			return metadata.NewOutgoingContext(c, metadata.MD{})
		}},
		{"outgoing-bin", func(c context.Context) context.Context { return metadata.AppendToOutgoingContext(c, "u-d-bin", "\x00\x01\xfe") }},
	}
	for _, shape := range []string{Unary, Bidi} {
		for _, v := range variants {
			got := map[string]string{}
			for _, side := range []string{sideReal, sideWrap} {
				ctx, cancel := context.WithCancel(v.mk(context.Background()))
				cl := testproto.NewTestApiClient(e.cc(side))
				var seen string
				var err error
				panicked, what := vk.Recover(func() {
					if shape == Unary {
						var resp *testproto.UnaryResponse
						resp, err = cl.Unary(ctx, &testproto.UnaryRequest{Msg: "md"})
						seen = resp.GetMsg()
					} else {
						var st testproto.TestApi_BidiStreamClient
						st, err = cl.BidiStream(ctx)
						if err == nil {
							var m *testproto.BidiStreamResponse
							m, err = st.Recv()
							seen = m.GetMsg()
						}
					}
				})
				cancel()
				switch {
				case panicked:
					seen = "panic: " + what
				case err != nil:
					seen = "error: " + normErr(err)
				}
				got[side] = seen
			}
			vk.Quiesce()
			r.Eval(2)
			r.Count("request-metadata-cases", 1)
			r.Distinct(fmt.Sprintf("reqmd|%s|%s", shape, v.name))
			if got[sideReal] != got[sideWrap] {
				r.Violation(fmt.Sprintf("C13/%s/request-metadata/%s", shape, v.name), fmt.Sprintf("client context %q: the handler behind the real connection saw %q, the wrapped handler saw %q", v.name, got[sideReal], got[sideWrap]), map[string]any{"shape": shape, "context": v.name})
			}
		}
	}
}
