package main

import (
	"context"
	"fmt"
	"strings"
	"sync"

	"google.golang.org/grpc"

	"google.golang.org/grpc/metadata"

	"github.com/smart-core-os/sc-golang/internal/testproto"
	"github.com/smart-core-os/sc-golang/internal/verif/vk"
)

// requestMetadata: what the handler sees as incoming user metadata must be the same on both transports for every
// kind of client context: without metadata, with outgoing metadata, with INCOMING metadata only (a context derived
// from an enclosing handler's: over a connection none of it travels), with both, and with an empty outgoing set.
func (e *env) requestMetadata() {
	r := e.r
	echoMode.Store(true)
	defer echoMode.Store(false)
	variants := []struct {
		name string
		mk   func(context.Context) context.Context
	}{
		{"none", func(c context.Context) context.Context { return c }},
		{"outgoing", func(c context.Context) context.Context { return metadata.AppendToOutgoingContext(c, "u-a", "1", "u-b", "2", "u-b", "3") }},
		{"incoming-only", func(c context.Context) context.Context {
			return metadata.NewIncomingContext(c, metadata.Pairs("x-user-token", "secret", "u-a", "outer"))
		}},
		{"incoming+outgoing", func(c context.Context) context.Context {
			c = metadata.NewIncomingContext(c, metadata.Pairs("x-user-token", "secret", "u-a", "outer"))
			return metadata.AppendToOutgoingContext(c, "u-a", "1")
		}},
		{"incoming+empty-outgoing", func(c context.Context) context.Context {
			c = metadata.NewIncomingContext(c, metadata.Pairs("x-user-token", "secret"))
			return metadata.NewOutgoingContext(c, metadata.MD{})
		}},
		{"outgoing-bin", func(c context.Context) context.Context { return metadata.AppendToOutgoingContext(c, "u-d-bin", "\x00\x01\xfe") }},
	}
	for _, shape := range []string{Unary, Bidi} {
		for _, v := range variants {
			got := map[string]string{}
			for _, side := range []string{sideReal, sideWrap} {
				ctx, cancel := context.WithCancel(v.mk(context.Background()))
				cl := testproto.NewTestApiClient(e.cc(side))
				var seen string
				var err error
				panicked, what := vk.Recover(func() {
					if shape == Unary {
						var resp *testproto.UnaryResponse
						resp, err = cl.Unary(ctx, &testproto.UnaryRequest{Msg: "md"})
						seen = resp.GetMsg()
					} else {
						var st testproto.TestApi_BidiStreamClient
						st, err = cl.BidiStream(ctx)
						if err == nil {
							var m *testproto.BidiStreamResponse
							m, err = st.Recv()
							seen = m.GetMsg()
						}
					}
				})
				cancel()
				switch {
				case panicked:
					seen = "panic: " + what
				case err != nil:
					seen = "error: " + normErr(err)
				}
				got[side] = seen
			}
			vk.Quiesce()
			r.Eval(2)
			r.Count("request-metadata-cases", 1)
			r.Distinct(fmt.Sprintf("reqmd|%s|%s", shape, v.name))
			if got[sideReal] != got[sideWrap] {
				r.Violation(fmt.Sprintf("C13/%s/request-metadata/%s", shape, v.name), fmt.Sprintf("client context %q: the handler behind the real connection saw %q, the wrapped handler saw %q", v.name, got[sideReal], got[sideWrap]), map[string]any{"shape": shape, "context": v.name})
			}
		}
	}
}

// fakeSTS is a server transport stream of some OTHER call (the enclosing handler's, when a client is used from
// inside a handler with that handler's context). Nothing of the inner call may end up in it.
type fakeSTS struct {
	mu    sync.Mutex
	calls []string
}

func (f *fakeSTS) Method() string { return "/outer.Service/Outer" }
func (f *fakeSTS) note(what string, md metadata.MD) {
	f.mu.Lock()
	f.calls = append(f.calls, what+":"+normMD(md))
	f.mu.Unlock()
}
func (f *fakeSTS) SetHeader(md metadata.MD) error  { f.note("SetHeader", md); return nil }
func (f *fakeSTS) SendHeader(md metadata.MD) error { f.note("SendHeader", md); return nil }
func (f *fakeSTS) SetTrailer(md metadata.MD) error { f.note("SetTrailer", md); return nil }

// responseMetadataPlumbing: unary calls whose handler answers with a header and a trailer through its call context.
// (1) The client's context carries the server transport stream of an enclosing call: header and trailer still reach
// the inner caller and nothing reaches the enclosing stream. (2) One pair of grpc.Header / grpc.Trailer targets is
// reused over a sequence of calls of which only some set metadata: after every call the targets hold that call's
// metadata, as over a real connection (empty when the call set none).
func (e *env) responseMetadataPlumbing() {
	r := e.r
	echoMode.Store(true)
	defer echoMode.Store(false)
	sequences := [][]string{{"md+h"}, {"md+h", "md"}, {"md", "md+h", "md"}, {"md+h1", "md+h2", "md"}}
	for _, nested := range []bool{false, true} {
		for si, seq := range sequences {
			got := map[string]string{}
			for _, side := range []string{sideReal, sideWrap} {
				base := context.Background()
				sts := &fakeSTS{}
				if nested {
					base = grpc.NewContextWithServerTransportStream(base, sts)
				}
				ctx, cancel := context.WithCancel(base)
				cl := testproto.NewTestApiClient(e.cc(side))
				var h, t metadata.MD // reused over the whole sequence
				var sb strings.Builder
				for _, msg := range seq {
					var err error
					panicked, what := vk.Recover(func() {
						_, err = cl.Unary(ctx, &testproto.UnaryRequest{Msg: msg}, grpc.Header(&h), grpc.Trailer(&t))
					})
					switch {
					case panicked:
						fmt.Fprintf(&sb, "[%s panic: %s]", msg, what)
					case err != nil:
						fmt.Fprintf(&sb, "[%s error: %s]", msg, normErr(err))
					default:
						fmt.Fprintf(&sb, "[%s header{%s} trailer{%s}]", msg, normMD(h), normMD(t))
					}
				}
				cancel()
				sts.mu.Lock()
				fmt.Fprintf(&sb, " enclosing-stream-calls=%v", sts.calls)
				sts.mu.Unlock()
				got[side] = sb.String()
			}
			vk.Quiesce()
			r.Eval(2)
			r.Count("response-metadata-plumbing-cases", 1)
			r.Distinct(fmt.Sprintf("respmd|%v|%d", nested, si))
			if got[sideReal] != got[sideWrap] {
				cls := "reused-option-targets"
				if nested {
					cls = "context-of-an-enclosing-handler"
				}
				r.Violation("C13/unary/response-metadata/"+cls, fmt.Sprintf("unary calls %v (client context carries an enclosing call's server transport stream: %v), one pair of grpc.Header/grpc.Trailer targets for the whole sequence:\n  real connection: %s\n  wrapper:         %s", seq, nested, got[sideReal], got[sideWrap]), map[string]any{"nested": nested, "sequence": seq})
			}
		}
	}
}

// handlerReaderLeftBehind: a bidi handler hands Recv to a goroutine of its own and returns after one response while
// the client has neither half-closed nor cancelled (its context lives on). The call is over: over a real connection the
// pending Recv ends (Canceled); through the wrapper it has to end as well, no pkg/wrap goroutine may stay behind.
func (e *env) handlerReaderLeftBehind() {
	r := e.r
	readerMode.Store(true)
	defer readerMode.Store(false)
	for _, side := range []string{sideReal, sideWrap} {
		baseline := vk.IDs(vk.Goroutines())
		before := readerEnded.Load()
		ctx, cancel := context.WithCancel(context.Background())
		cl := testproto.NewTestApiClient(e.cc(side))
		var seen string
		panicked, what := vk.Recover(func() {
			st, err := cl.BidiStream(ctx)
			if err != nil {
				seen = "error: " + normErr(err)
				return
			}
			for {
				m, err := st.Recv()
				if err != nil {
					seen += "end:" + normErr(err)
					return
				}
				seen += m.GetMsg() + ";"
			}
		})
		if panicked {
			seen = "panic: " + what
		}
		gs, ok := vk.Quiesce()
		r.Eval(1)
		r.Count("handler-reader-left-behind-cases", 1)
		r.Distinct("readerleft|" + side)
		if side == sideWrap && ok {
			ended := readerEnded.Load() > before
			var left []vk.G
			for _, g := range gs {
				if !baseline[g.ID] && g.Has("sc-golang/pkg/wrap") {
					left = append(left, g)
				}
			}
			if !ended || len(left) > 0 {
				r.Violation("C13/bidi/leak/handler-reader-left-behind", fmt.Sprintf("a bidi handler answered once and returned while a goroutine of its own was waiting in Recv, the client (context still alive, no half-close) saw %q: at the quiescent point the pending Recv has ended: %v; goroutines left:\n%s", seen, ended, vk.DescribeGs(left)), map[string]any{"side": side})
			}
		}
		cancel()
		vk.Quiesce()
	}
}
