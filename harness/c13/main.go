// Monitor for C13: the in-process wrapper (pkg/wrap) is indistinguishable from a real gRPC connection.
//
// Every generated lock-step call script is executed twice against the same handler implementation: through a
// real gRPC server/client pair on an in-memory bufconn listener (the reference) and through
// wrap.ServerToClient. The client-side transcripts are compared clause by clause; on the wrapped side the
// quiescence oracle additionally decides hangs and goroutine leaks.
package main

import (
	"context"
	"fmt"
	"reflect"
	"strings"

	"google.golang.org/grpc"
	"google.golang.org/grpc/codes"
	"google.golang.org/grpc/status"

	"github.com/smart-core-os/sc-golang/internal/testproto"
	"github.com/smart-core-os/sc-golang/internal/verif/vk"
)

func main() { vk.Main("C13", run) }

func run(r *vk.Run) {
	maxMsg := r.Pick(2, 3)
	randomN := r.Pick(1500, 400000)
	aliasN := r.Pick(60, 4000)
	r.Describe(fmt.Sprintf("lock-step call scripts over the five call shapes (unary via Invoke, server-streaming, client-streaming, bidirectional through the generated TestApi client; the unary method through NewStream). "+
		"Bounded grid, enumerated completely: for message counts 0..%d per direction the canonical script and every valid script obtained by inserting a header event (SetHeader, SendHeader, both, twice, SendHeader(nil)), a trailer event or a client Header() at every position, "+
		"ending the handler at every position with each of %d error kinds (status, plain error, context errors, empty message, wrapped status, long message) or nil, the client cancelling or its deadline expiring at every position followed by every order of {client reads outcome, server observes (ctx / Recv) and returns ctx error | other error | nil}, "+
		"the bidi half-close at every position, pairs (header event position x trailer/error/cancel position), pre-cancelled and pre-expired contexts. Random: %d scripts by a random walk over the same validity automaton with 0..5 messages per direction. "+
		"Each script runs on a bufconn gRPC connection and on wrap.ServerToClient with the same handler; compared: response messages and order, terminal outcome, header metadata (while open and at the end), trailer metadata, server-received messages; wrapped side only: hang and leftover pkg/wrap goroutines at a quiescent point. "+
		"Plus: the incoming user metadata a handler sees for six kinds of client context (none, outgoing, incoming only, both, empty outgoing, binary) on unary and bidirectional calls; unknown methods and all 16 (method shape x requested shape) combinations; %d x 4 aliasing scenarios with random TestAllTypes messages (same and different descriptor identity) with in-place mutation of every reachable value after the call. "+
		"A case is distinct by its shape and step sequence; trivial cases are not counted separately because every script contains a complete call.", maxMsg, len(errKinds), randomN, aliasN),
		"lock-step: a step starts only after every party of the previous step has returned; a message send always has its receiver already waiting or starting concurrently; a SendHeader (and the SendAndClose of a client-streaming handler) on the real transport is followed by a quiescent point so that the frames have reached the client's transport before anything else happens",
		"the steps 'client starts its final blocking call' and 'client context ends' are followed by a quiescent point on both transports: the step is complete when every goroutine reacting to it has done so (the client is parked inside the call; cancellation has propagated)",
		"the only asynchronous call is the client's final blocking call of the single-response shapes (Invoke, CloseAndRecv, RecvMsg of unary-as-stream), awaited where the script says CR",
		"terminal outcomes are normalised: context.Canceled / codes.Canceled and context.DeadlineExceeded / codes.DeadlineExceeded are classes; everything else is status.FromError code + message",
		"metadata: keys content-type, user-agent, grpc-*, :pseudo and the harness's own x-scn are transport keys and ignored; all other keys are compared with their value lists",
		"a deadline expiring at step k is a context whose Done/Err the harness triggers (Err = DeadlineExceeded); the pre-expired case uses context.WithDeadline in the past; no oracle reads a clock",
		"after the client went away the server handler first observes it (ctx.Done or a failing Recv) and only then returns, so the outcome is determined on the real transport",
		"server-side results of Recv/Send/SetHeader after the client went away, and errors of client Send, are recorded as notes and not compared (the statement is about what the client observes)",
		"hang and leak are decided from goroutine states at a quiescent point (vk.Quiesce), never from elapsed time; goroutines present before the wrapped call are excluded",
		"Invoke on a streaming method is counted, not judged (the statement does not say whether that is an unknown method or a shape mismatch)")

	e, err := newEnv(r)
	if err != nil {
		r.Inconclusive("setup", err.Error())
		return
	}
	if err := initCopyType(); err != nil {
		r.Inconclusive("setup/copy-type", err.Error())
		return
	}
	// warm the real connection up so that connection establishment is not part of any scenario
	if out := e.runScript(sideReal, &Script{Shape: Unary, Ctx: Live, Steps: []Step{{Op: RT}, {Op: CR}}}); out.tr.Terminal != "OK" {
		r.Inconclusive("setup/warm-up", fmt.Sprintf("warm-up call on the real transport: %+v", out.tr))
		return
	}
	vk.Quiesce()

	i := 0
	grid := gridScripts(maxMsg, true)
	r.Note("grid: %d scripts (message counts 0..%d)", len(grid), maxMsg)
	for _, sc := range grid {
		i++
		if r.Mine(i) {
			e.check("grid", sc)
		}
	}
	r.Exhaustive(true)
	for k := 0; k < randomN; k++ {
		i++
		if !r.Mine(i) {
			continue
		}
		rng := r.CaseRand("random", k)
		sc := randomScript(rng, shapes[rng.Intn(len(shapes))])
		if _, ok := analyse(sc); !ok {
			r.Inconclusive("generator/invalid-script", sc.String())
			continue
		}
		e.check("random", sc)
	}

	e.miscMethods()
	if r.Shard == 0 || r.Only != "" {
		e.requestMetadata()
		e.responseMetadataPlumbing()
		e.handlerReaderLeftBehind()
	}

	for k := 0; k < aliasN; k++ {
		for _, shape := range []string{Unary, Bidi} {
			for _, typing := range []string{"same", "mixed", "opaque"} {
				i++
				if r.Mine(i) {
					if !r.Guard("C13/"+shape+"/crash/rich-message-"+typing, k) {
						continue
					}
					e.aliasCase(k, shape, typing)
					r.Unguard()
				}
			}
		}
	}

	if quiesceWatchdog.Load() {
		r.Inconclusive("quiesce-watchdog", "the process did not become quiescent within the watchdog at least once")
	}
	if r.Only == "" {
		r.Require("scripts", r.Pick(3000, 50000))
		for _, sh := range shapes {
			r.Require("scripts/"+sh, r.Pick(200, 3000))
		}
		r.Require("leak-oracle-applied", r.Pick(3000, 50000))
		r.Require("ending/ok", 100)
		r.Require("ending/error", 100)
		r.Require("ending/cancel", 100)
		r.Require("ending/deadline", 100)
		r.Require("ending/pre-cancelled", 5)
		r.Require("ending/pre-expired", 5)
		r.Require("scripts-with-header-event", 500)
		r.Require("scripts-with-trailer-event", 300)
		r.Require("messages-compared", 2000)
		r.Require("alias/places-mutated", 2000)
		r.Require("misc/unknown-method", 6)
		r.Require("misc/shape-combinations", 16)
	}
}

// check runs one script on both transports and compares.
func (e *env) check(kind string, sc *Script) {
	r := e.r
	st, ok := analyse(sc)
	if !ok {
		r.Inconclusive("generator/invalid-script", sc.String())
		return
	}
	end := ending(sc, &st)
	if !r.Selected("C13/" + sc.Shape + "/") {
		return
	}
	if !r.Guard("C13/"+sc.Shape+"/crash/"+end, sc.String()) {
		return
	}
	defer r.Unguard()

	real := e.runScript(sideReal, sc)
	if real.hang {
		r.Inconclusive("real-side-stuck/"+sc.Shape, fmt.Sprintf("%s: stuck at %s on the real transport (script not lock-step?)", sc, real.tr.Hang))
		return
	}
	wrp := e.runScript(sideWrap, sc)

	r.Eval(1)
	r.Count("scripts", 1)
	r.Count("scripts/"+sc.Shape, 1)
	r.Count("scripts/"+kind, 1)
	r.Count("steps", len(sc.Steps))
	e.countEnding(end)
	if st.hdrSet {
		r.Count("scripts-with-header-event", 1)
	}
	if st.trSet {
		r.Count("scripts-with-trailer-event", 1)
	}
	r.Count("messages-compared", len(real.tr.Msgs)+len(real.tr.SrvRecv))
	r.Distinct(descriptor(sc))
	if wrp.checked {
		r.Count("leak-oracle-applied", 1)
	}
	for _, n := range wrp.tr.Notes {
		if strings.HasPrefix(n, "server Recv after the client went away") {
			r.Count("note/wrap/"+n, 1)
		}
	}
	for _, n := range real.tr.Notes {
		if strings.HasPrefix(n, "server Recv after the client went away") {
			r.Count("note/real/"+n, 1)
		}
	}
	if r.WantSample(sc.Shape + "/" + kind) {
		r.Sample(sc.Shape+"/"+kind, map[string]any{"script": sc.String(), "real": real.tr, "wrapped": wrp.tr})
	}

	replay := map[string]any{"script": sc, "text": sc.String()}
	report := func(clause, what string) {
		key := "C13/" + sc.Shape + "/" + clause + "/" + class(clause, sc, &st)
		r.Violation(key, fmt.Sprintf("script: %s\n%s\nreal:    %s\nwrapped: %s", sc, what, render(real.tr), render(wrp.tr)), replay)
	}
	if wrp.hang {
		report("hang", "the wrapped call is stuck at a quiescent point at "+wrp.tr.Hang)
		return
	}
	if !reflect.DeepEqual(real.tr.Msgs, wrp.tr.Msgs) {
		report("messages", fmt.Sprintf("response messages differ: real %q, wrapped %q", real.tr.Msgs, wrp.tr.Msgs))
	}
	if real.tr.Terminal != wrp.tr.Terminal {
		report("terminal", fmt.Sprintf("terminal outcome differs: real %q, wrapped %q", real.tr.Terminal, wrp.tr.Terminal))
	}
	if !reflect.DeepEqual(real.tr.MidHeaders, wrp.tr.MidHeaders) {
		report("header-open", fmt.Sprintf("Header() while the call is open differs: real %q, wrapped %q", real.tr.MidHeaders, wrp.tr.MidHeaders))
	}
	if real.tr.Header != wrp.tr.Header {
		report("header", fmt.Sprintf("header metadata after the call differs: real %q, wrapped %q", real.tr.Header, wrp.tr.Header))
	}
	if real.tr.Trailer != wrp.tr.Trailer {
		report("trailer", fmt.Sprintf("trailer metadata differs: real %q, wrapped %q", real.tr.Trailer, wrp.tr.Trailer))
	}
	if !reflect.DeepEqual(real.tr.SrvRecv, wrp.tr.SrvRecv) {
		report("server-received", fmt.Sprintf("server-received messages differ: real %q, wrapped %q", real.tr.SrvRecv, wrp.tr.SrvRecv))
	}
	if len(wrp.leaked) > 0 {
		report("leak", "pkg/wrap goroutines left at the quiescent point after the call:\n"+vk.DescribeGs(wrp.leaked))
	}
}

func (e *env) countEnding(end string) {
	e.r.Count("ending-class/"+end, 1)
	switch {
	case strings.HasPrefix(end, "cancel"):
		e.r.Count("ending/cancel", 1)
	case strings.HasPrefix(end, "deadline"):
		e.r.Count("ending/deadline", 1)
	case strings.HasPrefix(end, "error"), strings.HasPrefix(end, "server-returns"):
		e.r.Count("ending/error", 1)
	default:
		e.r.Count("ending/"+end, 1)
	}
}

func render(t Transcript) string {
	return fmt.Sprintf("msgs=%q terminal=%q header=%q trailer=%q open-headers=%q server-received=%q notes=%q", t.Msgs, t.Terminal, t.Header, t.Trailer, t.MidHeaders, t.SrvRecv, t.Notes)
}

// ---- unknown methods and streaming-shape mismatches (wrapped side judged against the statement) ----

func (e *env) miscMethods() {
	r := e.r
	if r.Shard != 0 {
		return
	}
	if !r.Guard("C13/misc/crash", "unknown methods and shape combinations") {
		return
	}
	defer r.Unguard()
	unknown := []string{"/sc.go.test.TestApi/Nope", "/sc.go.test.Other/Unary", "/sc.go.test.TestApi/unary", "/sc.go.test.TestApi/Unary/x", "/nope", "/sc.go.test.TestApi/"}
	for _, m := range unknown {
		for _, via := range []string{"invoke", "stream"} {
			baseline := vk.IDs(vk.Goroutines())
			code := e.callRaw(e.wrapCC, via, m, grpc.StreamDesc{ServerStreams: true, ClientStreams: true})
			rc := e.callRaw(e.realCC, via, m, grpc.StreamDesc{ServerStreams: true, ClientStreams: true})
			r.Eval(1)
			r.Count("misc/unknown-method", 1)
			r.Distinct("unknown " + via + " " + m)
			if rc != codes.Unimplemented {
				r.Note("real transport answers %s for unknown method %q via %s", rc, m, via)
			}
			if code != codes.Unimplemented {
				r.Violation("C13/unknown-method/"+via, fmt.Sprintf("method %q via %s: wrapped connection answers %s, want Unimplemented (real: %s)", m, via, code, rc), map[string]any{"method": m, "via": via})
			}
			e.leakAfter(baseline, "C13/unknown-method/leak/"+via, m)
		}
	}
	type meth struct {
		name   string
		ss, cs bool
	}
	methods := []meth{
		{testproto.TestApi_Unary_FullMethodName, false, false},
		{testproto.TestApi_ServerStream_FullMethodName, true, false},
		{testproto.TestApi_ClientStream_FullMethodName, false, true},
		{testproto.TestApi_BidiStream_FullMethodName, true, true},
	}
	shapeName := func(ss, cs bool) string {
		switch {
		case ss && cs:
			return "bidi"
		case ss:
			return "sstream"
		case cs:
			return "cstream"
		}
		return "unary"
	}
	for _, m := range methods {
		for _, d := range methods {
			if m.ss == d.ss && m.cs == d.cs {
				r.Count("misc/shape-combinations", 1)
				continue // the matching shape is what the scripts exercise
			}
			baseline := vk.IDs(vk.Goroutines())
			code := e.callRaw(e.wrapCC, "stream", m.name, grpc.StreamDesc{ServerStreams: d.ss, ClientStreams: d.cs})
			r.Eval(1)
			r.Count("misc/shape-combinations", 1)
			r.Distinct("shape " + m.name + " as " + shapeName(d.ss, d.cs))
			if code != codes.Internal {
				r.Violation("C13/shape-mismatch/"+shapeName(m.ss, m.cs)+"-as-"+shapeName(d.ss, d.cs),
					fmt.Sprintf("NewStream(%s) with a %s StreamDesc: wrapped connection answers %s, want Internal", m.name, shapeName(d.ss, d.cs), code), map[string]any{"method": m.name})
			}
			e.leakAfter(baseline, "C13/shape-mismatch/leak", m.name)
		}
		if m.ss || m.cs {
			baseline := vk.IDs(vk.Goroutines())
			code := e.callRaw(e.wrapCC, "invoke", m.name, grpc.StreamDesc{})
			r.Count("misc/invoke-on-streaming-method/"+code.String(), 1)
			e.leakAfter(baseline, "C13/shape-mismatch/leak", m.name)
		}
	}
}

// callRaw starts a call on a pre-cancel-free context, asks for its outcome and returns the status code.
func (e *env) callRaw(cc grpc.ClientConnInterface, via, method string, desc grpc.StreamDesc) codes.Code {
	ctx, cancel := context.WithCancel(context.Background())
	defer cancel()
	var err error
	done := make(chan struct{})
	go func() {
		defer close(done)
		if via == "invoke" {
			err = cc.Invoke(ctx, method, &testproto.UnaryRequest{Msg: "x"}, new(testproto.UnaryResponse))
			return
		}
		var st grpc.ClientStream
		st, err = cc.NewStream(ctx, &desc, method)
		if err != nil {
			return
		}
		// the error may legitimately be delivered with the outcome instead of by NewStream
		_ = st.CloseSend()
		err = st.RecvMsg(new(testproto.UnaryResponse))
	}()
	if !await(done) {
		cancel()
		vk.Quiesce()
		return codes.Code(1000) // stuck
	}
	if err == nil {
		return codes.OK
	}
	s, _ := status.FromError(err)
	return s.Code()
}

func (e *env) leakAfter(baseline map[int]bool, key, what string) {
	gs, ok := vk.Quiesce()
	if !ok {
		quiesceWatchdog.Store(true)
		return
	}
	for _, g := range gs {
		if !baseline[g.ID] && g.Has("sc-golang/pkg/wrap") {
			e.r.Violation(key, "goroutine left after the rejected call "+what+": "+g.String(), map[string]any{"method": what})
			return
		}
	}
}
