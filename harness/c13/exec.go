package main

import (
	"context"
	"errors"
	"fmt"
	"io"
	"net"
	"sort"
	"strings"
	"sync"
	"sync/atomic"
	"time"

	"google.golang.org/grpc"
	"google.golang.org/grpc/codes"
	"google.golang.org/grpc/credentials/insecure"
	"google.golang.org/grpc/metadata"
	"google.golang.org/grpc/status"
	"google.golang.org/grpc/test/bufconn"

	"github.com/smart-core-os/sc-golang/internal/testproto"
	"github.com/smart-core-os/sc-golang/internal/verif/vk"
	"github.com/smart-core-os/sc-golang/pkg/wrap"
)

// Transcript is what one execution of a script showed.
type Transcript struct {
	Msgs       []string `json:"msgs"`        // response messages the client received, in order
	Terminal   string   `json:"terminal"`    // normalised terminal outcome seen by the client
	MidHeaders []string `json:"mid_headers"` // results of Header() while the call was open
	Header     string   `json:"header"`      // user header metadata read after the terminal outcome
	Trailer    string   `json:"trailer"`     // user trailer metadata read after the terminal outcome
	SrvRecv    []string `json:"srv_recv"`    // messages the server handler received, in order
	// observations that are recorded but not compared (server-side or transport-specific)
	Notes   []string `json:"notes,omitempty"`
	Hang    string   `json:"hang,omitempty"`
	Entries int      `json:"handler_entries"`
}

const (
	sideReal = "real"
	sideWrap = "wrap"
)

// env holds the two transports of one worker process.
type env struct {
	r      *vk.Run
	srv    *scriptServer
	lis    *bufconn.Listener
	gs     *grpc.Server
	realCC *grpc.ClientConn
	wrapCC grpc.ClientConnInterface
	seq    atomic.Int64
}

var scenarios sync.Map // id -> *scenario

// echoMode makes the handlers answer calls that carry no scenario id with the incoming metadata they see.
var echoMode atomic.Bool

func newEnv(r *vk.Run) (*env, error) {
	e := &env{r: r, srv: &scriptServer{}}
	e.lis = bufconn.Listen(1 << 20)
	e.gs = grpc.NewServer()
	testproto.RegisterTestApiServer(e.gs, e.srv)
	e.gs.RegisterService(&aliasDesc, aliasAPI(&aliasServer{}))
	go func() { _ = e.gs.Serve(e.lis) }()
	cc, err := grpc.NewClient("passthrough:///bufnet",
		grpc.WithContextDialer(func(ctx context.Context, _ string) (net.Conn, error) { return e.lis.DialContext(ctx) }),
		grpc.WithTransportCredentials(insecure.NewCredentials()))
	if err != nil {
		return nil, err
	}
	e.realCC = cc
	e.wrapCC = wrap.ServerToClient(testproto.TestApi_ServiceDesc, e.srv)
	return e, nil
}

func (e *env) cc(side string) grpc.ClientConnInterface {
	if side == sideReal {
		return e.realCC
	}
	return e.wrapCC
}

// ---- scenario: state shared by the harness, the client goroutine and the handler ----

type srvCmd struct {
	step    Step
	payload string
	done    chan struct{}
}

type scenario struct {
	id      string
	side    string
	sc      *Script
	cmd     chan srvCmd
	started chan struct{}
	once    sync.Once
	abort   chan struct{}

	mu sync.Mutex
	tr Transcript
}

func (sn *scenario) note(format string, a ...any) {
	sn.mu.Lock()
	if len(sn.tr.Notes) < 40 {
		sn.tr.Notes = append(sn.tr.Notes, fmt.Sprintf(format, a...))
	}
	sn.mu.Unlock()
}

func (sn *scenario) snapshot() Transcript {
	sn.mu.Lock()
	defer sn.mu.Unlock()
	t := sn.tr
	t.Msgs = append([]string(nil), t.Msgs...)
	t.MidHeaders = append([]string(nil), t.MidHeaders...)
	t.SrvRecv = append([]string(nil), t.SrvRecv...)
	t.Notes = append([]string(nil), t.Notes...)
	return t
}

// manualCtx is a context whose end the harness triggers itself, so that "the deadline expires at step k" does not
// depend on wall-clock time: after expire() Done is closed and Err is context.DeadlineExceeded.
type manualCtx struct {
	context.Context
	done chan struct{}
	mu   sync.Mutex
	err  error
	next int
	fns  map[int]func()
}

func newManualCtx(parent context.Context) *manualCtx {
	return &manualCtx{Context: parent, done: make(chan struct{}), fns: map[int]func(){}}
}
func (m *manualCtx) Done() <-chan struct{}       { return m.done }
func (m *manualCtx) Deadline() (time.Time, bool) { return time.Time{}, false }
func (m *manualCtx) Err() error {
	m.mu.Lock()
	defer m.mu.Unlock()
	return m.err
}

// AfterFunc lets package context cancel derived contexts synchronously inside end(), exactly as the cancel
// function of a standard context does, instead of through a watcher goroutine (which would make "the server has
// seen the deadline" and "the client stream has seen it" two separate moments).
func (m *manualCtx) AfterFunc(f func()) (stop func() bool) {
	m.mu.Lock()
	defer m.mu.Unlock()
	if m.err != nil {
		go f()
		return func() bool { return false }
	}
	id := m.next
	m.next++
	m.fns[id] = f
	return func() bool {
		m.mu.Lock()
		defer m.mu.Unlock()
		_, ok := m.fns[id]
		delete(m.fns, id)
		return ok
	}
}

func (m *manualCtx) end(err error) {
	m.mu.Lock()
	if m.err != nil {
		m.mu.Unlock()
		return
	}
	m.err = err
	close(m.done)
	fns := m.fns
	m.fns = map[int]func(){}
	m.mu.Unlock()
	for _, f := range fns {
		f()
	}
}

// ---- normalisation ----

// normErr renders an error as the property compares it: cancellation and deadline expiry as classes, anything
// else by status code and message (status.FromError, which maps a non-status error to Unknown + its text).
func normErr(err error) string {
	switch {
	case err == nil:
		return "OK"
	case err == io.EOF:
		return "raw:io.EOF"
	case errors.Is(err, context.Canceled):
		return "Canceled"
	case errors.Is(err, context.DeadlineExceeded):
		return "DeadlineExceeded"
	}
	st, _ := status.FromError(err)
	switch st.Code() {
	case codes.Canceled:
		return "Canceled"
	case codes.DeadlineExceeded:
		return "DeadlineExceeded"
	}
	return st.Code().String() + ": " + st.Message()
}

// transport (non-user) metadata keys that only one of the transports adds.
func transportKey(k string) bool {
	return k == "content-type" || k == "user-agent" || strings.HasPrefix(k, "grpc-") || strings.HasPrefix(k, ":") || k == "x-scn"
}

func normMD(md metadata.MD) string {
	var keys []string
	for k := range md {
		if !transportKey(k) && len(md[k]) > 0 {
			keys = append(keys, k)
		}
	}
	sort.Strings(keys)
	var sb strings.Builder
	for _, k := range keys {
		fmt.Fprintf(&sb, "%s=%q;", k, md[k])
	}
	return sb.String()
}

// scribbleMD is what a handler may do with a metadata value after it has handed it over (re-use it, keep one shared
// value and edit it): the call owns a copy, so none of this may reach the client.
func scribbleMD(md metadata.MD) {
	if md == nil {
		return
	}
	for k, vs := range md {
		for i := range vs {
			vs[i] = "scribbled-after-handing-over"
		}
		md[k] = append(vs, "appended-after-handing-over")
	}
	md["z-added-after-handing-over"] = []string{"1"}
}

func headerMD(k int) metadata.MD {
	switch k {
	case 0:
		return metadata.Pairs("h-a", "1")
	case 1:
		return metadata.Pairs("h-b", "2", "h-b", "3")
	case 2:
		return metadata.Pairs("h-a", "4", "h-c", "5")
	default:
		return metadata.Pairs("h-d-bin", "\x00\x01\xfe")
	}
}

func trailerMD(k int) metadata.MD {
	switch k {
	case 0:
		return metadata.Pairs("t-a", "1")
	case 1:
		return metadata.Pairs("t-b", "2", "t-b", "3")
	case 2:
		return metadata.Pairs("t-a", "4", "t-c", "5")
	default:
		return metadata.Pairs("t-d-bin", "\x00\x01\xfe")
	}
}

func mkErr(kind string, ctx context.Context) error {
	switch kind {
	case "":
		return nil
	case "notfound":
		return status.Error(codes.NotFound, "thing not found")
	case "plain":
		return errors.New("plain failure")
	case "ctx-canceled":
		return context.Canceled
	case "ctx-deadline":
		return context.DeadlineExceeded
	case "internal-empty":
		return status.Error(codes.Internal, "")
	case "wrapped":
		return fmt.Errorf("outer: %w", status.Error(codes.PermissionDenied, "inner denied"))
	case "aborted-long":
		return status.Error(codes.Aborted, strings.Repeat("long message é ", 20))
	case "status-canceled":
		// the handler itself reports the code a client-side cancel would give (e.g. passing on an upstream failure)
		return status.Error(codes.Canceled, "upstream call was cancelled")
	case "status-deadline":
		return status.Error(codes.DeadlineExceeded, "upstream call timed out")
	case "ctx-err":
		if e := ctx.Err(); e != nil {
			return e
		}
		return status.Error(codes.Internal, "c13: ctx-err requested but context is live")
	}
	return status.Error(codes.Internal, "c13: unknown error kind "+kind)
}

// ---- waiting without deciding on elapsed time ----

var quiesceWatchdog atomic.Bool

// await waits for ch. When ch does not fire promptly it asks the quiescence oracle: if every other goroutine of the
// process is blocked (two identical consecutive dumps) and ch has still not fired, nothing will ever fire it -
// the step hangs. The 5 ms timer only decides when that (expensive) test starts, never the verdict.
func await(ch <-chan struct{}) bool {
	select {
	case <-ch:
		return true
	default:
	}
	t := time.NewTimer(5 * time.Millisecond)
	defer t.Stop()
	select {
	case <-ch:
		return true
	case <-t.C:
	}
	for {
		_, ok := vk.Quiesce()
		select {
		case <-ch:
			return true
		default:
		}
		if !ok {
			quiesceWatchdog.Store(true)
		}
		return false
	}
}

// ---- client side ----

// cliCall is one call as the client sees it, per shape, through the generated client where there is one.
type cliCall interface {
	Open(ctx context.Context) error
	Send(p string) error
	CloseSend() error
	Recv() (string, error)
	Final(ctx context.Context) (string, error)
	Header() (metadata.MD, error)
	Trailer() metadata.MD
}

const reqPayload = "request"

func newCall(shape string, cc grpc.ClientConnInterface) cliCall {
	c := testproto.NewTestApiClient(cc)
	switch shape {
	case Unary:
		return &unaryCall{c: c}
	case SStream:
		return &sstreamCall{c: c}
	case CStream:
		return &cstreamCall{c: c}
	case Bidi:
		return &bidiCall{c: c}
	case UAS:
		return &uasCall{cc: cc}
	}
	panic("shape " + shape)
}

type unaryCall struct {
	c    testproto.TestApiClient
	h, t metadata.MD
}

func (u *unaryCall) Open(context.Context) error { return nil }
func (u *unaryCall) Send(string) error          { return errors.New("n/a") }
func (u *unaryCall) CloseSend() error           { return errors.New("n/a") }
func (u *unaryCall) Recv() (string, error)      { return "", errors.New("n/a") }
func (u *unaryCall) Final(ctx context.Context) (string, error) {
	res, err := u.c.Unary(ctx, &testproto.UnaryRequest{Msg: reqPayload}, grpc.Header(&u.h), grpc.Trailer(&u.t))
	if err != nil {
		return "", err
	}
	return res.GetMsg(), nil
}
func (u *unaryCall) Header() (metadata.MD, error) { return u.h, nil }
func (u *unaryCall) Trailer() metadata.MD         { return u.t }

type uasCall struct {
	cc grpc.ClientConnInterface
	s  grpc.ClientStream
}

func (u *uasCall) Open(ctx context.Context) error {
	s, err := u.cc.NewStream(ctx, &grpc.StreamDesc{}, testproto.TestApi_Unary_FullMethodName)
	if err != nil {
		return err
	}
	u.s = s
	if err := s.SendMsg(&testproto.UnaryRequest{Msg: reqPayload}); err != nil {
		return err
	}
	return s.CloseSend()
}
func (u *uasCall) Send(string) error     { return errors.New("n/a") }
func (u *uasCall) CloseSend() error      { return errors.New("n/a") }
func (u *uasCall) Recv() (string, error) { return "", errors.New("n/a") }
func (u *uasCall) Final(context.Context) (string, error) {
	res := new(testproto.UnaryResponse)
	if err := u.s.RecvMsg(res); err != nil {
		return "", err
	}
	return res.GetMsg(), nil
}
func (u *uasCall) Header() (metadata.MD, error) {
	if u.s == nil {
		return nil, nil
	}
	return u.s.Header()
}
func (u *uasCall) Trailer() metadata.MD {
	if u.s == nil {
		return nil
	}
	return u.s.Trailer()
}

type sstreamCall struct {
	c testproto.TestApiClient
	s grpc.ServerStreamingClient[testproto.ServerStreamResponse]
}

func (c *sstreamCall) Open(ctx context.Context) error {
	s, err := c.c.ServerStream(ctx, &testproto.ServerStreamRequest{NumRes: 7, SimulateError: reqPayload})
	c.s = s
	return err
}
func (c *sstreamCall) Send(string) error { return errors.New("n/a") }
func (c *sstreamCall) CloseSend() error  { return errors.New("n/a") }
func (c *sstreamCall) Recv() (string, error) {
	m, err := c.s.Recv()
	if err != nil {
		return "", err
	}
	return fmt.Sprintf("s%d", m.GetCounter()-100), nil
}
func (c *sstreamCall) Final(context.Context) (string, error) { return "", errors.New("n/a") }
func (c *sstreamCall) Header() (metadata.MD, error) {
	if c.s == nil {
		return nil, nil
	}
	return c.s.Header()
}
func (c *sstreamCall) Trailer() metadata.MD {
	if c.s == nil {
		return nil
	}
	return c.s.Trailer()
}

type cstreamCall struct {
	c testproto.TestApiClient
	s grpc.ClientStreamingClient[testproto.ClientStreamRequest, testproto.ClientStreamResponse]
}

func (c *cstreamCall) Open(ctx context.Context) error {
	s, err := c.c.ClientStream(ctx)
	c.s = s
	return err
}
func (c *cstreamCall) Send(p string) error   { return c.s.Send(&testproto.ClientStreamRequest{Msg: p}) }
func (c *cstreamCall) CloseSend() error      { return errors.New("n/a") }
func (c *cstreamCall) Recv() (string, error) { return "", errors.New("n/a") }
func (c *cstreamCall) Final(context.Context) (string, error) {
	m, err := c.s.CloseAndRecv()
	if err != nil {
		return "", err
	}
	return m.GetMsg(), nil
}
func (c *cstreamCall) Header() (metadata.MD, error) {
	if c.s == nil {
		return nil, nil
	}
	return c.s.Header()
}
func (c *cstreamCall) Trailer() metadata.MD {
	if c.s == nil {
		return nil
	}
	return c.s.Trailer()
}

type bidiCall struct {
	c testproto.TestApiClient
	s grpc.BidiStreamingClient[testproto.BidiStreamRequest, testproto.BidiStreamResponse]
}

func (c *bidiCall) Open(ctx context.Context) error {
	s, err := c.c.BidiStream(ctx)
	c.s = s
	return err
}
func (c *bidiCall) Send(p string) error { return c.s.Send(&testproto.BidiStreamRequest{Msg: p}) }
func (c *bidiCall) CloseSend() error    { return c.s.CloseSend() }
func (c *bidiCall) Recv() (string, error) {
	m, err := c.s.Recv()
	if err != nil {
		return "", err
	}
	return m.GetMsg(), nil
}
func (c *bidiCall) Final(context.Context) (string, error) { return "", errors.New("n/a") }
func (c *bidiCall) Header() (metadata.MD, error) {
	if c.s == nil {
		return nil, nil
	}
	return c.s.Header()
}
func (c *bidiCall) Trailer() metadata.MD {
	if c.s == nil {
		return nil
	}
	return c.s.Trailer()
}

// client runs the client's operations one after the other on its own goroutine.
type client struct {
	q chan func()
}

func newClientLoop() *client {
	c := &client{q: make(chan func(), 16)}
	go func() {
		for f := range c.q {
			f()
		}
	}()
	return c
}

// do queues f and returns the channel closed when it has run.
func (c *client) do(f func()) <-chan struct{} {
	done := make(chan struct{})
	c.q <- func() { defer close(done); f() }
	return done
}

// ---- running one script on one side ----

type outcome struct {
	tr      Transcript
	hang    bool
	leaked  []vk.G
	checked bool // leak oracle applied
}

func (e *env) runScript(side string, sc *Script) outcome {
	var out outcome
	var baseline map[int]bool
	if side == sideWrap {
		baseline = vk.IDs(vk.Goroutines())
	}
	id := fmt.Sprintf("%s-%d", side, e.seq.Add(1))
	sn := &scenario{id: id, side: side, sc: sc, cmd: make(chan srvCmd), started: make(chan struct{}), abort: make(chan struct{})}
	scenarios.Store(id, sn)
	defer scenarios.Delete(id)

	base, baseCancel := context.WithCancel(context.Background())
	var ctx context.Context = base
	var userCancel context.CancelFunc = func() {}
	var manual *manualCtx
	usesXD := false
	for _, s := range sc.Steps {
		if s.Op == XD {
			usesXD = true
		}
	}
	switch {
	case sc.Ctx == PreCancelled:
		c, cancel := context.WithCancel(base)
		cancel()
		ctx = c
	case sc.Ctx == PreExpired:
		c, cancel := context.WithDeadline(base, time.Unix(1, 0))
		defer cancel()
		ctx = c
	case usesXD:
		manual = newManualCtx(base)
		ctx = manual
	default:
		ctx, userCancel = context.WithCancel(base)
	}
	ctx = metadata.AppendToOutgoingContext(ctx, "x-scn", id)

	call := newCall(sc.Shape, e.cc(side))
	cl := newClientLoop()
	defer close(cl.q)

	stuck := func(what string) {
		out.hang = true
		sn.mu.Lock()
		sn.tr.Hang = what
		sn.mu.Unlock()
	}
	setTerminal := func(err error) {
		sn.mu.Lock()
		if sn.tr.Terminal == "" {
			sn.tr.Terminal = normErr(err)
		}
		sn.mu.Unlock()
	}
	// reads header and trailer the way a client does once it has seen the terminal outcome
	readEnd := func() {
		h, herr := call.Header()
		t := call.Trailer()
		sn.mu.Lock()
		sn.tr.Header = normMD(h)
		sn.tr.Trailer = normMD(t)
		sn.mu.Unlock()
		if herr != nil {
			sn.note("final Header() error: %s", normErr(herr))
		}
	}
	final := func() {
		m, err := call.Final(ctx)
		sn.mu.Lock()
		if err == nil {
			sn.tr.Msgs = append(sn.tr.Msgs, m)
		}
		sn.mu.Unlock()
		setTerminal(err)
		readEnd()
	}
	recvEnd := func() {
		for i := 0; i < 8; i++ {
			m, err := call.Recv()
			if err == io.EOF {
				setTerminal(nil)
				break
			}
			if err != nil {
				setTerminal(err)
				break
			}
			sn.mu.Lock()
			sn.tr.Msgs = append(sn.tr.Msgs, m+"(unscripted)")
			sn.mu.Unlock()
		}
		readEnd()
	}
	var finalDone <-chan struct{}
	srvDo := func(st Step, payload string) <-chan struct{} {
		c := srvCmd{step: st, payload: payload, done: make(chan struct{})}
		go func() {
			select {
			case sn.cmd <- c:
			case <-sn.abort:
			}
		}()
		return c.done
	}
	finish := func() outcome {
		close(sn.abort)
		if side == sideWrap && !out.hang {
			gs, ok := vk.Quiesce()
			if !ok {
				quiesceWatchdog.Store(true)
			} else {
				out.checked = true
				for _, g := range gs {
					if !baseline[g.ID] && g.Has("sc-golang/pkg/wrap") {
						out.leaked = append(out.leaked, g)
					}
				}
			}
		}
		userCancel()
		if manual != nil {
			manual.end(context.Canceled)
		}
		baseCancel()
		if out.hang {
			// give whatever can still end the chance to end, so that it does not pollute later scenarios
			vk.Quiesce()
		}
		out.tr = sn.snapshot()
		return out
	}

	// ---- open ----
	var openErr error
	switch sc.Shape {
	case Unary:
		finalDone = cl.do(final)
	default:
		if !await(cl.do(func() { openErr = call.Open(ctx) })) {
			stuck("open")
			return finish()
		}
	}
	if sc.Ctx != Live {
		// the call was dead before it began: the client just asks for the outcome
		switch {
		case sc.Shape == Unary:
		case openErr != nil:
			setTerminal(openErr)
			if !await(cl.do(readEnd)) {
				stuck("header/trailer after failed open")
			}
			return finish()
		case single(sc.Shape):
			finalDone = cl.do(final)
		default:
			finalDone = cl.do(recvEnd)
		}
		if !await(finalDone) {
			stuck("outcome of a call on a dead context")
		}
		return finish()
	}
	if openErr != nil {
		setTerminal(openErr)
		sn.note("open failed on a live context: %v", openErr)
		if !await(cl.do(readEnd)) {
			stuck("header/trailer after failed open")
		}
		return finish()
	}
	if sc.Shape == UAS {
		finalDone = cl.do(final)
	}
	if !await(sn.started) {
		stuck("handler not entered after open")
		return finish()
	}
	// park makes "the client has started its final blocking call" a completed step: at the quiescent point the
	// client goroutine is inside that call (or the call has returned), not somewhere on its way into it
	park := func() {
		if _, q := vk.Quiesce(); !q {
			quiesceWatchdog.Store(true)
		}
	}
	if sc.Shape == Unary || sc.Shape == UAS {
		park()
	}

	// ---- steps ----
	cSent, sSent := 0, 0
	for i, st := range sc.Steps {
		ok := true
		where := fmt.Sprintf("step %d %s", i, st)
		switch st.Op {
		case CS:
			p := fmt.Sprintf("c%d", cSent)
			cSent++
			sd := srvDo(st, "")
			cd := cl.do(func() {
				if err := call.Send(p); err != nil {
					sn.note("client Send(%s): %s", p, normErr(err))
				}
			})
			ok = await(cd) && await(sd)
		case CC:
			ok = await(cl.do(func() {
				if err := call.CloseSend(); err != nil {
					sn.note("client CloseSend: %s", normErr(err))
				}
			}))
		case CF:
			finalDone = cl.do(final)
			park()
		case SE, SR, SW, HS, TS, RT:
			ok = await(srvDo(st, ""))
		case HD:
			ok = await(srvDo(st, ""))
			if ok && side == sideReal {
				// let the header frame reach the client's transport (it has a ready receiver: the reader goroutine),
				// so that what the client sees afterwards does not depend on a race with a later cancel
				if _, q := vk.Quiesce(); !q {
					quiesceWatchdog.Store(true)
				}
			}
		case SS:
			p := fmt.Sprintf("s%d", sSent)
			sSent++
			sd := srvDo(st, p)
			if sc.Shape == CStream {
				// SendAndClose: the client is already inside CloseAndRecv; on the real transport the step is complete
				// when the frames have reached the client's transport (quiescent point)
				ok = await(sd)
				if ok {
					park()
				}
				break
			}
			cd := cl.do(func() {
				m, err := call.Recv()
				sn.mu.Lock()
				if err != nil {
					sn.tr.Msgs = append(sn.tr.Msgs, "!"+normErr(err))
				} else {
					sn.tr.Msgs = append(sn.tr.Msgs, m)
				}
				sn.mu.Unlock()
			})
			ok = await(sd) && await(cd)
		case CH:
			ok = await(cl.do(func() {
				h, err := call.Header()
				s := normMD(h)
				if err != nil {
					s += " !" + normErr(err)
				}
				sn.mu.Lock()
				sn.tr.MidHeaders = append(sn.tr.MidHeaders, s)
				sn.mu.Unlock()
			}))
		case XC:
			userCancel()
			park() // the step "client goes away" is complete when every goroutine that reacts to it has done so
		case XD:
			manual.end(context.DeadlineExceeded)
			park()
		case CR:
			if single(sc.Shape) {
				if finalDone == nil {
					finalDone = cl.do(final)
				}
			} else {
				finalDone = cl.do(recvEnd)
			}
			ok = await(finalDone)
		}
		if !ok {
			stuck(where)
			break
		}
	}
	return finish()
}

// ---- server side ----

type srvStream interface {
	Context() context.Context
	Recv() (string, error)
	Send(p string) error
	SetHeader(metadata.MD) error
	SendHeader(metadata.MD) error
	SetTrailer(metadata.MD)
}

type scriptServer struct {
	testproto.UnimplementedTestApiServer
}

func lookup(ctx context.Context) *scenario {
	md, _ := metadata.FromIncomingContext(ctx)
	v := md.Get("x-scn")
	if len(v) != 1 {
		return nil
	}
	sn, _ := scenarios.Load(v[0])
	if sn == nil {
		return nil
	}
	return sn.(*scenario)
}

// serve executes the server half of the current script: it performs the commands the harness hands it one at a
// time and returns when told to (or when the scenario is over).
func serve(st srvStream, first string, hasFirst bool) (string, error) {
	ctx := st.Context()
	sn := lookup(ctx)
	if sn == nil {
		if echoMode.Load() {
			// request-metadata phase: answer with the user metadata the handler sees as incoming
			md, _ := metadata.FromIncomingContext(ctx)
			seen := "incoming:" + normMD(md)
			if hasFirst && strings.Contains(first, "+h") {
				// this call also answers with a header and a trailer of its own (through the call context for unary calls)
				_ = st.SetHeader(metadata.Pairs("x-echo-h", first))
				st.SetTrailer(metadata.Pairs("x-echo-t", first))
			}
			if _, isUnary := st.(unarySrv); isUnary {
				return seen, nil
			}
			return "", st.Send(seen)
		}
		return "", status.Error(codes.FailedPrecondition, "c13: call does not belong to a running scenario")
	}
	sn.mu.Lock()
	sn.tr.Entries++
	if hasFirst {
		sn.tr.SrvRecv = append(sn.tr.SrvRecv, first)
	}
	sn.mu.Unlock()
	sn.once.Do(func() { close(sn.started) })
	for {
		select {
		case <-sn.abort:
			if e := ctx.Err(); e != nil {
				return "", e
			}
			return "", status.Error(codes.Aborted, "c13: scenario over")
		case c := <-sn.cmd:
			switch c.step.Op {
			case CS, SE, SR:
				m, err := st.Recv()
				sn.mu.Lock()
				if err == nil {
					sn.tr.SrvRecv = append(sn.tr.SrvRecv, m)
				}
				sn.mu.Unlock()
				switch {
				case c.step.Op == CS && err != nil:
					sn.note("server Recv for a client message: %s", normErr(err))
				case c.step.Op == SE && err != io.EOF:
					sn.note("server Recv after half-close: %s", normErr(err))
				case c.step.Op == SR:
					sn.note("server Recv after the client went away: %s", normErr(err))
				}
			case SS:
				if err := st.Send(c.payload); err != nil {
					sn.note("server Send(%s): %s", c.payload, normErr(err))
				}
			case HS:
				md := headerMD(c.step.K)
				if err := st.SetHeader(md); err != nil {
					sn.note("server SetHeader: error")
				}
				scribbleMD(md)
			case HD:
				var md metadata.MD
				if c.step.K > 0 {
					md = headerMD(c.step.K)
				}
				if err := st.SendHeader(md); err != nil {
					sn.note("server SendHeader: error")
				}
				scribbleMD(md)
			case TS:
				md := trailerMD(c.step.K)
				st.SetTrailer(md)
				scribbleMD(md)
			case SW:
				select {
				case <-ctx.Done():
					sn.note("server context ended: %s", normErr(ctx.Err()))
				case <-sn.abort:
				}
			case RT:
				err := mkErr(c.step.Err, ctx)
				close(c.done)
				return "response", err
			}
			close(c.done)
		}
	}
}

// unarySrv adapts a unary handler's context to srvStream.
type unarySrv struct{ ctx context.Context }

func (u unarySrv) Context() context.Context        { return u.ctx }
func (u unarySrv) Recv() (string, error)           { return "", errors.New("n/a") }
func (u unarySrv) Send(string) error               { return errors.New("n/a") }
func (u unarySrv) SetHeader(md metadata.MD) error  { return grpc.SetHeader(u.ctx, md) }
func (u unarySrv) SendHeader(md metadata.MD) error { return grpc.SendHeader(u.ctx, md) }
func (u unarySrv) SetTrailer(md metadata.MD)       { _ = grpc.SetTrailer(u.ctx, md) }

func (s *scriptServer) Unary(ctx context.Context, req *testproto.UnaryRequest) (*testproto.UnaryResponse, error) {
	resp, err := serve(unarySrv{ctx}, req.GetMsg(), true)
	if err != nil {
		return nil, err
	}
	return &testproto.UnaryResponse{Msg: resp}, nil
}

type sstreamSrv struct {
	s grpc.ServerStreamingServer[testproto.ServerStreamResponse]
}

func (a sstreamSrv) Context() context.Context { return a.s.Context() }
func (a sstreamSrv) Recv() (string, error)    { return "", errors.New("n/a") }
func (a sstreamSrv) Send(p string) error {
	var n int32
	fmt.Sscanf(p, "s%d", &n)
	return a.s.Send(&testproto.ServerStreamResponse{Counter: 100 + n})
}
func (a sstreamSrv) SetHeader(md metadata.MD) error  { return a.s.SetHeader(md) }
func (a sstreamSrv) SendHeader(md metadata.MD) error { return a.s.SendHeader(md) }
func (a sstreamSrv) SetTrailer(md metadata.MD)       { a.s.SetTrailer(md) }

func (s *scriptServer) ServerStream(req *testproto.ServerStreamRequest, st grpc.ServerStreamingServer[testproto.ServerStreamResponse]) error {
	_, err := serve(sstreamSrv{st}, fmt.Sprintf("%s/%d", req.GetSimulateError(), req.GetNumRes()), true)
	return err
}

type cstreamSrv struct {
	s grpc.ClientStreamingServer[testproto.ClientStreamRequest, testproto.ClientStreamResponse]
}

func (a cstreamSrv) Context() context.Context { return a.s.Context() }
func (a cstreamSrv) Recv() (string, error) {
	m, err := a.s.Recv()
	if err != nil {
		return "", err
	}
	return m.GetMsg(), nil
}
func (a cstreamSrv) Send(p string) error {
	return a.s.SendAndClose(&testproto.ClientStreamResponse{Msg: p})
}
func (a cstreamSrv) SetHeader(md metadata.MD) error  { return a.s.SetHeader(md) }
func (a cstreamSrv) SendHeader(md metadata.MD) error { return a.s.SendHeader(md) }
func (a cstreamSrv) SetTrailer(md metadata.MD)       { a.s.SetTrailer(md) }

func (s *scriptServer) ClientStream(st grpc.ClientStreamingServer[testproto.ClientStreamRequest, testproto.ClientStreamResponse]) error {
	_, err := serve(cstreamSrv{st}, "", false)
	return err
}

type bidiSrv struct {
	s grpc.BidiStreamingServer[testproto.BidiStreamRequest, testproto.BidiStreamResponse]
}

func (a bidiSrv) Context() context.Context { return a.s.Context() }
func (a bidiSrv) Recv() (string, error) {
	m, err := a.s.Recv()
	if err != nil {
		return "", err
	}
	return m.GetMsg(), nil
}
func (a bidiSrv) Send(p string) error             { return a.s.Send(&testproto.BidiStreamResponse{Msg: p}) }
func (a bidiSrv) SetHeader(md metadata.MD) error  { return a.s.SetHeader(md) }
func (a bidiSrv) SendHeader(md metadata.MD) error { return a.s.SendHeader(md) }
func (a bidiSrv) SetTrailer(md metadata.MD)       { a.s.SetTrailer(md) }

// readerMode makes the bidi handler (for calls without a scenario id) start a reader goroutine of its own, answer
// once and return while that goroutine is still waiting in Recv: when the call is over the pending Recv has to end.
var readerMode atomic.Bool
var readerEnded atomic.Int64

func (s *scriptServer) BidiStream(st grpc.BidiStreamingServer[testproto.BidiStreamRequest, testproto.BidiStreamResponse]) error {
	if readerMode.Load() && lookup(st.Context()) == nil {
		go func() {
			for {
				if _, err := st.Recv(); err != nil {
					readerEnded.Add(1)
					return
				}
			}
		}()
		return st.Send(&testproto.BidiStreamResponse{Msg: "bye"})
	}
	_, err := serve(bidiSrv{st}, "", false)
	return err
}
