package main

// Path pools, corrupted paths and the structural classes used in violation keys.

import (
	"sort"
	"strings"

	"google.golang.org/protobuf/reflect/protoreflect"

	"github.com/smart-core-os/sc-golang/internal/verif/vk"
)

// basePool is the hand-picked pool over testproto.TestAllTypes used by the bounded-exhaustive phase: every field
// kind class at top level, nested paths (also through the co-recursive message, well-known types and a oneof arm),
// paths through repeated messages, and several parent+child / sibling combinations.
var basePool = []string{
	"default_int32", "default_string", "default_bytes", "default_double", "default_nested_enum",
	"optional_int32", "optional_string", "oneof_default_int32", "oneof_default_nested_message",
	"default_nested_message", "default_foreign_message", "default_well_known",
	"repeated_int32", "repeated_string", "repeated_nested_message", "repeated_foreign_message",
	"map_int32_int32", "map_string_string", "map_string_nested_message",
	"default_nested_message.a", "default_nested_message.corecursive",
	"default_nested_message.corecursive.default_int32",
	"default_nested_message.corecursive.default_nested_message.a",
	"default_nested_message.corecursive.repeated_int32",
	"default_foreign_message.c", "default_foreign_message.d",
	"default_well_known.default_timestamp", "default_well_known.default_timestamp.seconds",
	"default_well_known.default_duration.nanos",
	"oneof_default_nested_message.a", "oneof_default_nested_message.corecursive.map_string_string",
	"repeated_nested_message.a", "repeated_nested_message.corecursive.default_string",
	"repeated_foreign_message.c", "repeated_well_known.default_timestamp.seconds",
}

// extraPool extends basePool in the thorough tier.
var extraPool = []string{
	"default_int64", "default_uint32", "default_float", "default_bool", "default_foreign_enum", "default_sfixed64",
	"optional_bytes", "optional_double", "optional_bool",
	"repeated_bytes", "repeated_nested_enum", "repeated_well_known", "repeated_double",
	"map_bool_bool", "map_string_bytes", "map_string_well_known", "map_int32_double",
	"default_nested_message.corecursive.default_nested_message",
	"default_nested_message.corecursive.oneof_default_int32",
	"default_well_known.default_duration", "default_well_known.default_timestamp.nanos",
	"oneof_default_nested_message.corecursive", "oneof_default_nested_message.corecursive.default_string",
	"repeated_nested_message.corecursive", "repeated_nested_message.corecursive.repeated_nested_message.a",
	"repeated_foreign_message.d", "repeated_well_known.default_duration",
}

// genPool derives a path pool from a descriptor: all paths through singular messages down to depth, plus paths
// through repeated message fields (one and two levels below the list).
func genPool(md protoreflect.MessageDescriptor, depth int) []string {
	seen := map[string]bool{}
	var out []string
	add := func(p string) {
		if !seen[p] {
			seen[p] = true
			out = append(out, p)
		}
	}
	for _, p := range vk.LeafPaths(md, depth) {
		add(p)
	}
	var walk func(md protoreflect.MessageDescriptor, prefix string, d int)
	walk = func(md protoreflect.MessageDescriptor, prefix string, d int) {
		fds := md.Fields()
		for i := 0; i < fds.Len(); i++ {
			fd := fds.Get(i)
			if fd.IsList() && fd.Message() != nil {
				sub := fd.Message().Fields()
				for j := 0; j < sub.Len(); j++ {
					sf := sub.Get(j)
					p := prefix + string(fd.Name()) + "." + string(sf.Name())
					add(p)
					if sf.Message() != nil && !sf.IsMap() && !sf.IsList() && d < 1 {
						ss := sf.Message().Fields()
						for k := 0; k < ss.Len() && k < 6; k++ {
							add(p + "." + string(ss.Get(k).Name()))
						}
					}
				}
			}
			if fd.Message() != nil && !fd.IsMap() && !fd.IsList() && d < 1 && fd.Message() != md {
				walk(fd.Message(), prefix+string(fd.Name())+".", d+1)
			}
		}
	}
	walk(md, "", 0)
	return out
}

// projectable reports whether the reference defines a projection for the mask: every path valid or continuing
// through repeated message fields only.
func projectable(md protoreflect.MessageDescriptor, paths []string) bool {
	for _, p := range paths {
		switch vk.ClassifyPath(md, p) {
		case vk.PathValid, vk.PathThroughRepMsg:
		default:
			return false
		}
	}
	return true
}

// worstClass returns the class of the first path that is not PathValid (PathValid if all are).
func worstClass(md protoreflect.MessageDescriptor, paths []string) vk.PathClass {
	rep := false
	for _, p := range paths {
		switch c := vk.ClassifyPath(md, p); c {
		case vk.PathValid:
		case vk.PathThroughRepMsg:
			rep = true
		default:
			return c
		}
	}
	if rep {
		return vk.PathThroughRepMsg
	}
	return vk.PathValid
}

func isPrefixPath(parent, child string) bool { return strings.HasPrefix(child, parent+".") }

// maskClass names the structure of a mask for violation keys and counters. It is computed on the *minimised*
// failing mask, so it is a function of discrete structure only.
func maskClass(md protoreflect.MessageDescriptor, paths []string, nilMask bool) string {
	if nilMask {
		return "nil-mask"
	}
	if len(paths) == 0 {
		return "empty-mask"
	}
	if w := worstClass(md, paths); w != vk.PathValid && w != vk.PathThroughRepMsg {
		return w.String()
	}
	rep := ""
	for _, p := range paths {
		if vk.ClassifyPath(md, p) == vk.PathThroughRepMsg {
			rep = "through-repeated-message:"
		}
	}
	if len(paths) == 1 {
		return rep + "single:" + vk.FieldKindClass(md, paths[0])
	}
	rel := "disjoint"
	for i := range paths {
		for j := range paths {
			if i == j {
				continue
			}
			switch {
			case paths[i] == paths[j]:
				if rel != "parent+child" {
					rel = "duplicate"
				}
			case isPrefixPath(paths[i], paths[j]):
				rel = "parent+child"
			case rel == "disjoint" && firstSeg(paths[i]) == firstSeg(paths[j]):
				rel = "siblings"
			}
		}
	}
	if rel == "disjoint" {
		return rep + rel
	}
	return rel // the relation between the paths is the structure that matters
}

func firstSeg(p string) string {
	if i := strings.IndexByte(p, '.'); i >= 0 {
		return p[:i]
	}
	return p
}

// corruptPaths lists systematically corrupted paths for md: unknown segments (top level, below a message, below a
// repeated message), continuations through every scalar / enum / optional / oneof-scalar field, through every map
// field (".key", ".value", a real field name of the value type) and through every repeated scalar field, plus
// paths with empty segments. Nested levels contribute one representative of each kind.
func corruptPaths(md protoreflect.MessageDescriptor) []string {
	var out []string
	seen := map[string]bool{}
	add := func(p string) {
		if !seen[p] {
			seen[p] = true
			out = append(out, p)
		}
	}
	var walk func(md protoreflect.MessageDescriptor, prefix string, d int)
	walk = func(md protoreflect.MessageDescriptor, prefix string, d int) {
		fds := md.Fields()
		kinds := map[string]int{}
		add(prefix + "nope")
		if d == 0 {
			add(prefix + "nope.x")
		}
		for i := 0; i < fds.Len(); i++ {
			fd := fds.Get(i)
			p := prefix + string(fd.Name())
			var kind string
			switch {
			case fd.IsMap():
				kind = "map"
			case fd.IsList() && fd.Message() != nil:
				kind = "repmsg"
			case fd.IsList():
				kind = "repsc"
			case fd.Message() != nil:
				kind = "msg"
			default:
				kind = "scalar"
			}
			kinds[kind]++
			if d > 0 && kinds[kind] > 1 {
				continue // nested levels: one representative per kind
			}
			switch kind {
			case "map":
				add(p + ".key")
				add(p + ".value")
				if vm := fd.MapValue().Message(); vm != nil && vm.Fields().Len() > 0 {
					add(p + "." + string(vm.Fields().Get(0).Name()))
					add(p + ".value." + string(vm.Fields().Get(0).Name()))
				} else {
					add(p + ".x")
				}
			case "repsc":
				add(p + ".x")
				if kinds[kind] <= 2 {
					add(p + ".x.y")
				}
			case "scalar":
				add(p + ".x")
				if kinds[kind] <= 2 {
					add(p + ".x.y")
				}
			case "repmsg":
				add(p + ".nope")
				if d < 2 {
					walk(fd.Message(), p+".", d+1)
				}
			case "msg":
				add(p + ".nope")
				if d < 2 && fd.Message() != md {
					walk(fd.Message(), p+".", d+1)
				}
			}
		}
	}
	walk(md, "", 0)
	// empty segments
	first := string(md.Fields().Get(0).Name())
	add("")
	add(".")
	add("." + first)
	add(first + ".")
	add(first + "..x")
	sort.Strings(out)
	return out
}
