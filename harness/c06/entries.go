package main

// Drivers of the read entry points. Each driver builds fresh library objects for one input, performs the read(s)
// with the mask and reports what came back together with a copy (taken before the read) of the message each
// returned value must be the projection of. Stored / passed-in messages and the mask are watched by shadow copies.

import (
	"bytes"
	"context"
	"fmt"
	"time"

	"github.com/smart-core-os/sc-api/go/types"
	"google.golang.org/protobuf/proto"
	"google.golang.org/protobuf/reflect/protoreflect"
	"google.golang.org/protobuf/types/known/fieldmaskpb"

	"github.com/smart-core-os/sc-golang/internal/verif/vk"
	"github.com/smart-core-os/sc-golang/pkg/masks"
	"github.com/smart-core-os/sc-golang/pkg/resource"
)

// input is one (messages, mask) case. The harness never mutates msgs; drivers hand clones to the library.
type input struct {
	md      protoreflect.MessageDescriptor
	msgs    [3]proto.Message // stored value / record a; record b; value written during a Pull
	paths   []string
	nilMask bool
	variant int // selects equivalent ways of driving the same entry point (constructor, option, backpressure)
}

// closedEarly is called when a stream ends where an event was due. With a corrupted mask that usually means the
// library goroutine is panicking (its deferred close ran first) and the process is about to die: wait so that the
// crash is attributed to the guarded case. The wait decides nothing: what a read with a corrupted mask returns is
// not judged, and a stream that merely ends is accepted.
func (in *input) closedEarly(out *outcome, what string) {
	if !projectable(in.md, in.paths) {
		time.Sleep(3 * time.Second)
		out.closedNoCrash = true
		return
	}
	out.shape = append(out.shape, what)
}

func (in *input) mask() *fieldmaskpb.FieldMask {
	if in.nilMask {
		return nil
	}
	if len(in.paths) == 0 {
		if in.variant%2 == 0 {
			return &fieldmaskpb.FieldMask{}
		}
		return &fieldmaskpb.FieldMask{Paths: []string{}}
	}
	return &fieldmaskpb.FieldMask{Paths: append([]string(nil), in.paths...)}
}

// obs is one returned message and what it must be the projection of.
type obs struct {
	kind string        // "", "seed", "update", "new", "old", "removed", "item0", ...
	got  proto.Message // as returned by the library
	src  proto.Message // copy of the stored / passed message taken before the read; nil = there was none
}

type outcome struct {
	obs     []obs
	mutated []string // which watched message changed: "stored", "input", "mask"
	shape   []string // structural surprises (wrong number of items, stream closed, ok=false ...)
	watched int      // messages compared with their shadow copy
	// closedNoCrash: a stream with a corrupted mask ended early and the process survived (accepted, counted)
	closedNoCrash bool
}

type watch struct {
	label string
	ptr   proto.Message
	copy  proto.Message
	wire  []byte // deterministic encoding of ptr when it was first seen
}

func wire(m proto.Message) []byte {
	b, err := proto.MarshalOptions{Deterministic: true}.Marshal(m)
	if err != nil {
		panic("harness: marshal: " + err.Error())
	}
	return b
}

type watcher struct{ ws []watch }

// add starts watching m and returns the deep copy taken now (never handed to the library, never changed).
func (w *watcher) add(label string, m proto.Message) proto.Message {
	if m == nil || !m.ProtoReflect().IsValid() {
		return nil
	}
	c := proto.Clone(m)
	w.ws = append(w.ws, watch{label, m, c, wire(m)})
	return c
}

func (w *watcher) verify(out *outcome) {
	out.watched += len(w.ws)
	for _, x := range w.ws {
		// unchanged = the same deterministic encoding as before (cheaper than a reflective comparison); a
		// difference is confirmed against the deep copy before it is reported
		if !bytes.Equal(wire(x.ptr), x.wire) && !vk.SameMessage(x.ptr, x.copy) {
			out.mutated = append(out.mutated, fmt.Sprintf("%s: was %s now %s", x.label, vk.JSON(x.copy), vk.JSON(x.ptr)))
		}
	}
}

type entry struct {
	name string
	// rare: trivial entry (nil message / absent value) that is run on a fraction of the cases only
	rare bool
	// pull: the mask is applied on a goroutine started by the library (a panic there kills the process).
	pull bool
	run  func(in *input) outcome
}

func clone(m proto.Message) proto.Message {
	if m == nil {
		return nil
	}
	return proto.Clone(m)
}

func readOpt(in *input, mask *fieldmaskpb.FieldMask) []resource.ReadOption {
	if mask == nil {
		if in.variant%2 == 0 {
			return nil
		}
		return []resource.ReadOption{resource.WithReadMask(nil)}
	}
	// WithReadPaths is documented to panic for paths that are not part of the message, so it is only used as an
	// alternative spelling for masks the reference calls valid.
	if in.variant%3 == 1 && vk.MaskValid(in.md, in.paths) {
		return []resource.ReadOption{resource.WithReadPaths(in.msgs[0], in.paths...)}
	}
	return []resource.ReadOption{resource.WithReadMask(mask)}
}

func newFilter(in *input, mask *fieldmaskpb.FieldMask) *masks.ResponseFilter {
	if mask != nil && in.variant%2 == 1 {
		return masks.NewResponseFilter(masks.WithFieldMaskPaths(mask.Paths...))
	}
	return masks.NewResponseFilter(masks.WithFieldMask(mask))
}

func newValue(in *input, w *watcher) (v *resource.Value, stored, storedCopy proto.Message) {
	if in.variant%2 == 0 {
		v = resource.NewValue(resource.WithInitialValue(clone(in.msgs[0])))
	} else {
		v = resource.NewValue()
		if _, err := v.Set(clone(in.msgs[0])); err != nil {
			panic("harness: Value.Set failed: " + err.Error())
		}
	}
	stored = v.Get() // no mask: the stored pointer itself
	return v, stored, w.add("stored", stored)
}

func newCollection(in *input, w *watcher) (c *resource.Collection, sa, sb, copyA, copyB proto.Message) {
	if in.variant%2 == 0 {
		c = resource.NewCollection(resource.WithInitialRecord("a", clone(in.msgs[0])), resource.WithInitialRecord("b", clone(in.msgs[1])))
	} else {
		c = resource.NewCollection()
		if _, err := c.Add("b", clone(in.msgs[1])); err != nil {
			panic("harness: Collection.Add failed: " + err.Error())
		}
		if _, err := c.Add("a", clone(in.msgs[0])); err != nil {
			panic("harness: Collection.Add failed: " + err.Error())
		}
	}
	sa, _ = c.Get("a")
	sb, _ = c.Get("b")
	return c, sa, sb, w.add("stored[a]", sa), w.add("stored[b]", sb)
}

var entries = []*entry{
	{name: "Filter", run: func(in *input) (out outcome) {
		mask := in.mask()
		var w watcher
		w.add("mask", mask)
		m := clone(in.msgs[0])
		newFilter(in, mask).Filter(m) // documented to change m: m is the result
		out.obs = append(out.obs, obs{"", m, in.msgs[0]})
		w.verify(&out)
		return
	}},
	{name: "FilterClone", run: func(in *input) (out outcome) {
		mask := in.mask()
		var w watcher
		w.add("mask", mask)
		m := clone(in.msgs[0])
		w.add("input", m)
		got := newFilter(in, mask).FilterClone(m)
		out.obs = append(out.obs, obs{"", got, in.msgs[0]})
		w.verify(&out)
		return
	}},
	// the natural server sequence: one filter instance is validated against the message type and then used
	{name: "Validate+Filter", run: func(in *input) (out outcome) {
		mask := in.mask()
		var w watcher
		w.add("mask", mask)
		m := clone(in.msgs[0])
		f := newFilter(in, mask)
		_ = f.Validate(m)
		f.Filter(m)
		out.obs = append(out.obs, obs{"", m, in.msgs[0]})
		w.verify(&out)
		return
	}},
	{name: "Validate+FilterClone", run: func(in *input) (out outcome) {
		mask := in.mask()
		var w watcher
		w.add("mask", mask)
		m := clone(in.msgs[0])
		w.add("input", m)
		f := newFilter(in, mask)
		_ = f.Validate(m)
		got := f.FilterClone(m)
		out.obs = append(out.obs, obs{"", got, in.msgs[0]})
		w.verify(&out)
		return
	}},
	{name: "FilterClone(nil)", rare: true, run: func(in *input) (out outcome) {
		mask := in.mask()
		got := newFilter(in, mask).FilterClone(nil)
		newFilter(in, mask).Filter(nil)
		out.obs = append(out.obs, obs{"", got, nil})
		return
	}},
	{name: "ReadRequest.FilterClone", run: func(in *input) (out outcome) {
		mask := in.mask()
		var w watcher
		w.add("mask", mask)
		m := clone(in.msgs[0])
		w.add("input", m)
		rr := resource.ComputeReadConfig(readOpt(in, mask)...)
		var got proto.Message
		if in.variant%2 == 0 {
			got = rr.FilterClone(m)
		} else {
			got = rr.ResponseFilter().FilterClone(m)
		}
		out.obs = append(out.obs, obs{"", got, in.msgs[0]})
		w.verify(&out)
		return
	}},
	{name: "Value.Get", run: func(in *input) (out outcome) {
		mask := in.mask()
		var w watcher
		w.add("mask", mask)
		v, stored, src := newValue(in, &w)
		got := v.Get(readOpt(in, mask)...)
		out.obs = append(out.obs, obs{"", got, src})
		if again := v.Get(); again != stored {
			out.shape = append(out.shape, "the stored message was replaced by a masked Get")
		}
		w.verify(&out)
		return
	}},
	{name: "Value.Get(absent)", rare: true, run: func(in *input) (out outcome) {
		v := resource.NewValue()
		got := v.Get(readOpt(in, in.mask())...)
		out.obs = append(out.obs, obs{"", got, nil})
		return
	}},
	{name: "Value.Pull", pull: true, run: func(in *input) (out outcome) {
		mask := in.mask()
		var w watcher
		w.add("mask", mask)
		v, _, src0 := newValue(in, &w)
		ctx, cancel := context.WithCancel(context.Background())
		defer cancel()
		bp := in.variant%4 >= 2
		ch := v.Pull(ctx, append(readOpt(in, mask), resource.WithBackpressure(bp))...)
		seed, ok := <-ch
		if !ok {
			in.closedEarly(&out, "stream closed before the seed value")
			w.verify(&out)
			return
		}
		out.obs = append(out.obs, obs{"seed", seed.Value, src0})
		done := make(chan error, 1)
		go func() { _, err := v.Set(clone(in.msgs[2])); done <- err }()
		ev, ok := <-ch
		if err := <-done; err != nil {
			panic("harness: Value.Set failed: " + err.Error())
		}
		if !ok {
			in.closedEarly(&out, "stream closed before the update")
			w.verify(&out)
			return
		}
		out.obs = append(out.obs, obs{"update", ev.Value, w.add("stored'", v.Get())})
		cancel()
		for range ch {
		}
		w.verify(&out)
		return
	}},
	{name: "Collection.Get", run: func(in *input) (out outcome) {
		mask := in.mask()
		var w watcher
		w.add("mask", mask)
		c, sa, _, src, _ := newCollection(in, &w)
		got, ok := c.Get("a", readOpt(in, mask)...)
		if !ok {
			out.shape = append(out.shape, "Get(a) reported absent")
		}
		out.obs = append(out.obs, obs{"", got, src})
		gone, ok := c.Get("zz", readOpt(in, mask)...)
		if ok {
			out.shape = append(out.shape, "Get(zz) reported present")
		}
		out.obs = append(out.obs, obs{"absent", gone, nil})
		if again, _ := c.Get("a"); again != sa {
			out.shape = append(out.shape, "the stored record was replaced by a masked Get")
		}
		w.verify(&out)
		return
	}},
	{name: "Collection.List", run: func(in *input) (out outcome) {
		mask := in.mask()
		var w watcher
		w.add("mask", mask)
		c, _, _, ca, cb := newCollection(in, &w)
		srcs := []proto.Message{ca, cb}
		items := c.List(readOpt(in, mask)...)
		if len(items) != 2 {
			out.shape = append(out.shape, fmt.Sprintf("List returned %d items, 2 stored", len(items)))
			w.verify(&out)
			return
		}
		for i, it := range items {
			out.obs = append(out.obs, obs{"item", it, srcs[i]})
		}
		w.verify(&out)
		return
	}},
	{name: "Collection.Pull", pull: true, run: func(in *input) (out outcome) {
		mask := in.mask()
		var w watcher
		w.add("mask", mask)
		c, _, _, srcA, srcB := newCollection(in, &w)
		ctx, cancel := context.WithCancel(context.Background())
		defer cancel()
		bp := in.variant%4 >= 2
		ch := c.Pull(ctx, append(readOpt(in, mask), resource.WithBackpressure(bp))...)
		next := func(what string, ct types.ChangeType, id string) *resource.CollectionChange {
			ev, ok := <-ch
			if !ok {
				in.closedEarly(&out, "stream closed before "+what)
				return nil
			}
			if ev.ChangeType != ct || ev.Id != id {
				out.shape = append(out.shape, fmt.Sprintf("%s: got %v %q, expected %v %q", what, ev.ChangeType, ev.Id, ct, id))
				return nil
			}
			return ev
		}
		finish := func() {
			cancel()
			for range ch {
			}
			w.verify(&out)
		}
		for _, s := range []struct {
			id  string
			src proto.Message
		}{{"a", srcA}, {"b", srcB}} {
			ev := next("seed "+s.id, types.ChangeType_ADD, s.id)
			if ev == nil {
				finish()
				return
			}
			out.obs = append(out.obs, obs{"seed", ev.NewValue, s.src}, obs{"seed-old", ev.OldValue, nil})
		}
		// UPDATE a (writes run on their own goroutine: with backpressure they block until the event is taken)
		errc := make(chan error, 1)
		go func() { _, err := c.Update("a", clone(in.msgs[2])); errc <- err }()
		ev := next("update a", types.ChangeType_UPDATE, "a")
		if err := <-errc; err != nil {
			panic("harness: Collection.Update failed: " + err.Error())
		}
		if ev == nil {
			finish()
			return
		}
		sa1, _ := c.Get("a")
		out.obs = append(out.obs, obs{"new", ev.NewValue, w.add("stored[a]'", sa1)}, obs{"old", ev.OldValue, srcA})
		// REMOVE b
		go func() { _, err := c.Delete("b"); errc <- err }()
		ev = next("remove b", types.ChangeType_REMOVE, "b")
		if err := <-errc; err != nil {
			panic("harness: Collection.Delete failed: " + err.Error())
		}
		if ev == nil {
			finish()
			return
		}
		out.obs = append(out.obs, obs{"removed", ev.OldValue, srcB}, obs{"removed-new", ev.NewValue, nil})
		// ADD c
		go func() { _, err := c.Add("c", clone(in.msgs[1])); errc <- err }()
		ev = next("add c", types.ChangeType_ADD, "c")
		if err := <-errc; err != nil {
			panic("harness: Collection.Add failed: " + err.Error())
		}
		if ev == nil {
			finish()
			return
		}
		sc, _ := c.Get("c")
		out.obs = append(out.obs, obs{"new", ev.NewValue, w.add("stored[c]", sc)})
		if !bp {
			// a merged event: while the reader is not receiving, a is updated (that event occupies the forwarder), then c is
			// deleted and added again; the two changes of c reach the reader as one REPLACE whose old and new values are
			// projections like any other
			sa2 := sa1
			if _, err := c.Update("a", clone(in.msgs[0])); err != nil {
				panic("harness: Collection.Update failed: " + err.Error())
			}
			vk.Quiesce()
			if _, err := c.Delete("c"); err != nil {
				panic("harness: Collection.Delete failed: " + err.Error())
			}
			if _, err := c.Add("c", clone(in.msgs[2])); err != nil {
				panic("harness: Collection.Add failed: " + err.Error())
			}
			vk.Quiesce()
			if ev = next("update a (before the merged event)", types.ChangeType_UPDATE, "a"); ev == nil {
				finish()
				return
			}
			sa3, _ := c.Get("a")
			out.obs = append(out.obs, obs{"new", ev.NewValue, w.add("stored[a]''", sa3)}, obs{"old", ev.OldValue, sa2})
			if ev = next("replace c (remove and add merged)", types.ChangeType_REPLACE, "c"); ev == nil {
				finish()
				return
			}
			sc2, _ := c.Get("c")
			out.obs = append(out.obs, obs{"new", ev.NewValue, w.add("stored[c]'", sc2)}, obs{"replaced-old", ev.OldValue, sc})
		}
		finish()
		return
	}},
	{name: "Collection.PullID", pull: true, run: func(in *input) (out outcome) {
		mask := in.mask()
		var w watcher
		w.add("mask", mask)
		c, _, _, srcA, _ := newCollection(in, &w)
		ctx, cancel := context.WithCancel(context.Background())
		defer cancel()
		bp := in.variant%4 >= 2
		ch := c.PullID(ctx, "a", append(readOpt(in, mask), resource.WithBackpressure(bp))...)
		finish := func() {
			cancel()
			for range ch {
			}
			w.verify(&out)
		}
		seed, ok := <-ch
		if !ok {
			in.closedEarly(&out, "stream closed before the seed value")
			finish()
			return
		}
		out.obs = append(out.obs, obs{"seed", seed.Value, srcA})
		errc := make(chan error, 1)
		go func() { _, err := c.Update("a", clone(in.msgs[2])); errc <- err }()
		ev, ok := <-ch
		if err := <-errc; err != nil {
			panic("harness: Collection.Update failed: " + err.Error())
		}
		if !ok {
			in.closedEarly(&out, "stream closed before the update")
			finish()
			return
		}
		sa1, _ := c.Get("a")
		out.obs = append(out.obs, obs{"update", ev.Value, w.add("stored[a]'", sa1)})
		finish()
		return
	}},
}
