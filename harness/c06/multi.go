package main

import (
	"context"
	"fmt"
	"sync"

	"google.golang.org/protobuf/proto"
	"google.golang.org/protobuf/types/known/fieldmaskpb"

	"github.com/smart-core-os/sc-golang/internal/testproto"
	"github.com/smart-core-os/sc-golang/internal/verif/vk"
	"github.com/smart-core-os/sc-golang/pkg/resource"
)

// multiSubscriberPhase: several subscribers with DIFFERENT read masks listen to the same resource at the same
// time. Every event each of them receives must be the projection of the stored value by its own mask: a
// subscriber's mask must not leak into what the others (or the store) see.
func (m *mon) multiSubscriberPhase() {
	r := m.r
	n := r.Pick(300, 10000)
	maskPool := [][]string{nil, {"default_string"}, {"default_int32", "default_nested_message"}, {"default_nested_message.a"}, {"repeated_nested_message.a", "default_string"}, {}}
	for i := 0; i < n; i++ {
		if !r.Mine(i) {
			continue
		}
		rng := r.CaseRand("c06-multi", i)
		isValue := rng.Bool()
		var val *resource.Value
		var col *resource.Collection
		first := gen(rng, &testproto.TestAllTypes{}, vk.GenOpts{Density: 40, MaxDepth: 2, MaxList: 2})
		if isValue {
			val = resource.NewValue(resource.WithInitialValue(proto.Clone(first)))
		} else {
			col = resource.NewCollection(resource.WithInitialRecord("a", proto.Clone(first)))
		}
		type sub struct {
			paths []string
			isNil bool
			mu    sync.Mutex
			got   []proto.Message // new values received, in order (seed first)
		}
		ctx, cancel := context.WithCancel(context.Background())
		ns := rng.Range(2, 4)
		subs := make([]*sub, ns)
		for k := range subs {
			p := maskPool[rng.Intn(len(maskPool))]
			s := &sub{paths: p, isNil: p == nil}
			subs[k] = s
			ro := []resource.ReadOption{resource.WithBackpressure(true)}
			if p != nil {
				ro = append(ro, resource.WithReadMask(&fieldmaskpb.FieldMask{Paths: append([]string{}, p...)}))
			}
			if isValue {
				ch := val.Pull(ctx, ro...)
				go func() {
					for e := range ch {
						s.mu.Lock()
						s.got = append(s.got, e.Value)
						s.mu.Unlock()
					}
				}()
			} else {
				ch := col.Pull(ctx, ro...)
				go func() {
					for e := range ch {
						s.mu.Lock()
						s.got = append(s.got, e.NewValue)
						s.mu.Unlock()
					}
				}()
			}
		}
		stored := []proto.Message{first}
		nw := rng.Range(2, 5)
		for w := 0; w < nw; w++ {
			v := gen(rng, &testproto.TestAllTypes{}, vk.GenOpts{Density: 40, MaxDepth: 2, MaxList: 2})
			var res proto.Message
			var err error
			if isValue {
				res, err = val.Set(v)
			} else {
				res, err = col.Update("a", v)
			}
			if err == nil {
				stored = append(stored, proto.Clone(res))
			}
		}
		if _, ok := r.MustQuiesce("c06-multi"); !ok {
			cancel()
			return
		}
		r.Eval(1)
		r.Count("multi-subscriber-cases", 1)
		kind := "Collection.Pull"
		if isValue {
			kind = "Value.Pull"
		}
		r.Distinct(fmt.Sprintf("multi:%s:%d:%d", kind, ns, nw))
		for k, s := range subs {
			s.mu.Lock()
			got := append([]proto.Message{}, s.got...)
			s.mu.Unlock()
			if len(got) != len(stored) {
				r.Violation("C06/projection/"+kind+".multi-subscriber/count", fmt.Sprintf("case %d: subscriber %d (mask %v) received %d values for %d stored versions", i, k, s.paths, len(got), len(stored)), map[string]any{"case": i})
				continue
			}
			for j := range got {
				want := vk.RefProject(stored[j], s.paths, s.isNil)
				r.Count("projections-compared", 1)
				r.Count("projections-compared/multi-subscriber", 1)
				if !sameProjection(got[j], want) {
					r.Violation("C06/projection/"+kind+".multi-subscriber/other-subscribers-mask", fmt.Sprintf("case %d: subscriber %d with mask %v (nil=%v), among %d subscribers with other masks, received %s for stored version %s; its own projection is %s", i, k, s.paths, s.isNil, ns, vk.JSON(got[j]), vk.JSON(stored[j]), vk.JSON(want)), map[string]any{"case": i})
					break
				}
			}
		}
		// the store itself must be what the last write returned
		var now proto.Message
		if isValue {
			now = val.Get()
		} else {
			now, _ = col.Get("a")
		}
		if !vk.SameMessage(now, stored[len(stored)-1]) {
			r.Violation("C06/mutated-stored/"+kind+".multi-subscriber", fmt.Sprintf("case %d: stored value is %s, the last write returned %s", i, vk.JSON(now), vk.JSON(stored[len(stored)-1])), map[string]any{"case": i})
		}
		cancel()
	}
	r.Require("multi-subscriber-cases", 100)
}

// sameProjection compares ignoring empty shells of unselected parent messages (left open by the statement).
func sameProjection(got, want proto.Message) bool {
	if vk.SameMessage(got, want) {
		return true
	}
	fg, fw := vk.Flatten(got), vk.Flatten(want)
	for k, v := range fg {
		if len(k) > 0 && k[len(k)-1] == '/' {
			continue
		}
		if fw[k] != v {
			return false
		}
	}
	for k, v := range fw {
		if len(k) > 0 && k[len(k)-1] == '/' {
			continue
		}
		if fg[k] != v {
			return false
		}
	}
	return true
}
