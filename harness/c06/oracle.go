package main

// Oracle side of the C06 monitor: nested form of a mask, the comparison of a returned message with the reference
// projection (vk.RefProject), and deterministic message builders. Nothing here calls pkg/masks, fmutils or
// fieldmaskpb's validation.

import (
	"bytes"
	"strings"

	"google.golang.org/protobuf/proto"
	"google.golang.org/protobuf/reflect/protoreflect"

	"github.com/smart-core-os/sc-golang/internal/verif/vk"
)

// node is the nested form of a mask. whole: the field itself is named by a path (a parent path covers its children).
type node struct {
	whole bool
	kids  map[string]*node
}

func buildTree(paths []string) *node {
	root := &node{kids: map[string]*node{}}
	for _, p := range paths {
		cur := root
		segs := strings.Split(p, ".")
		for i, s := range segs {
			n := cur.kids[s]
			if n == nil {
				n = &node{kids: map[string]*node{}}
				cur.kids[s] = n
			}
			if i == len(segs)-1 {
				n.whole = true
			}
			cur = n
		}
	}
	return root
}

// pruneAncestors removes, in place, singular sub-messages that are (a) strict ancestors of mask paths, not named by
// a path themselves, and (b) empty. The property fixes which selected fields a projection contains; whether the
// empty shell of an unselected parent message is present or absent is left open, so both sides of a comparison are
// normalised with this before being compared a second time.
func pruneAncestors(m protoreflect.Message, t *node) {
	fds := m.Descriptor().Fields()
	for name, sub := range t.kids {
		if sub.whole || len(sub.kids) == 0 {
			continue
		}
		fd := fds.ByName(protoreflect.Name(name))
		if fd == nil || fd.IsMap() || fd.Message() == nil || !m.Has(fd) {
			continue
		}
		if fd.IsList() {
			l := m.Get(fd).List()
			for i := 0; i < l.Len(); i++ {
				pruneAncestors(l.Get(i).Message(), sub)
			}
			continue
		}
		child := m.Mutable(fd).Message()
		pruneAncestors(child, sub)
		if isEmpty(child) {
			m.Clear(fd)
		}
	}
}

func isEmpty(m protoreflect.Message) bool {
	empty := true
	m.Range(func(protoreflect.FieldDescriptor, protoreflect.Value) bool { empty = false; return false })
	return empty && len(m.GetUnknown()) == 0
}

// cmpResult says how a returned message relates to the reference projection.
type cmpResult int

const (
	cmpExact  cmpResult = iota // identical
	cmpShells                  // identical up to empty shells of unselected parent messages
	cmpDifferent
)

// compareProjection compares got with the reference projection want for the mask t.
func compareProjection(got, want proto.Message, t *node) cmpResult {
	gn := got == nil || !got.ProtoReflect().IsValid()
	wn := want == nil
	if gn || wn {
		if gn && wn {
			return cmpExact
		}
		return cmpDifferent
	}
	if got.ProtoReflect().Descriptor() != want.ProtoReflect().Descriptor() {
		return cmpDifferent
	}
	if bytes.Equal(wire(got), wire(want)) || vk.SameMessage(got, want) {
		return cmpExact
	}
	if t == nil {
		return cmpDifferent
	}
	g, w := proto.Clone(got), proto.Clone(want)
	pruneAncestors(g.ProtoReflect(), t)
	pruneAncestors(w.ProtoReflect(), t)
	if vk.SameMessage(g, w) {
		return cmpShells
	}
	return cmpDifferent
}

// ---------------------------------------------------------------------------------------------------------------
// Deterministic message builders.

// populate sets every field of m to a non-default value derived from (field number, salt). Message fields are
// filled down to depth; lists get two elements (the second one sparser), maps two entries.
func populate(m protoreflect.Message, depth, salt int) { populateLevel(m, depth, salt, true) }

// coreFields are always populated in nested copies of a large message (they are what pool paths, corrupted paths
// and canaries reach below the top level); the rest of a nested large message is populated sparsely to keep the
// messages small.
var coreFields = map[protoreflect.Name]bool{
	"default_int32": true, "default_string": true, "default_nested_message": true, "repeated_int32": true,
	"repeated_nested_message": true, "map_int32_int32": true, "map_string_string": true, "oneof_default_int32": true,
	"optional_int32": true, "default_nested_enum": true,
}

func populateLevel(m protoreflect.Message, depth, salt int, top bool) {
	fds := m.Descriptor().Fields()
	for i := 0; i < fds.Len(); i++ {
		fd := fds.Get(i)
		if !top && fds.Len() > 20 && !coreFields[fd.Name()] && (i+salt)%4 != 0 {
			continue
		}
		if od := fd.ContainingOneof(); od != nil && !od.IsSynthetic() {
			// one arm per oneof: pick by salt, prefer message arms at even salts
			arms := od.Fields()
			if arms.Get((salt+depth)%arms.Len()) != fd {
				continue
			}
		}
		setField(m, fd, depth, salt)
	}
}

func setField(m protoreflect.Message, fd protoreflect.FieldDescriptor, depth, salt int) {
	switch {
	case fd.IsMap():
		mp := m.Mutable(fd).Map()
		for j := 0; j < 2; j++ {
			k := scalarValue(fd.MapKey(), salt+j+1).MapKey()
			if fd.MapKey().Kind() == protoreflect.BoolKind {
				k = protoreflect.ValueOfBool(j == 0).MapKey()
			}
			if fd.MapValue().Message() != nil {
				v := mp.NewValue()
				if depth > 0 {
					populateLevel(v.Message(), depth-1, salt+j, false)
				}
				mp.Set(k, v)
			} else {
				mp.Set(k, scalarValue(fd.MapValue(), salt+j+2))
			}
		}
	case fd.IsList():
		l := m.Mutable(fd).List()
		for j := 0; j < 2; j++ {
			if fd.Message() != nil {
				e := l.NewElement()
				if depth > 0 {
					if j == 0 {
						populateLevel(e.Message(), depth-1, salt+1, false)
					} else {
						sparse(e.Message(), depth-1, salt+2)
					}
				}
				l.Append(e)
			} else {
				l.Append(scalarValue(fd, salt+j+3))
			}
		}
	case fd.Message() != nil:
		sub := m.Mutable(fd).Message()
		if depth > 0 {
			populateLevel(sub, depth-1, salt+int(fd.Number()), false)
		}
	default:
		m.Set(fd, scalarValue(fd, salt))
	}
}

// sparse populates every third field.
func sparse(m protoreflect.Message, depth, salt int) {
	fds := m.Descriptor().Fields()
	for i := 0; i < fds.Len(); i++ {
		if (i+salt)%3 != 0 {
			continue
		}
		setField(m, fds.Get(i), depth, salt)
	}
}

// hollow sets every singular message field to an empty message and gives every repeated message field two empty
// elements: a stored value made of shells only.
func hollow(m protoreflect.Message, depth int) {
	fds := m.Descriptor().Fields()
	for i := 0; i < fds.Len(); i++ {
		fd := fds.Get(i)
		if fd.Message() == nil || fd.IsMap() {
			continue
		}
		if od := fd.ContainingOneof(); od != nil && !od.IsSynthetic() && od.Fields().Get(od.Fields().Len()-1) != fd {
			continue
		}
		if fd.IsList() {
			l := m.Mutable(fd).List()
			l.Append(l.NewElement())
			l.Append(l.NewElement())
			continue
		}
		sub := m.Mutable(fd).Message()
		if depth > 0 {
			hollow(sub, depth-1)
		}
	}
}

func scalarValue(fd protoreflect.FieldDescriptor, salt int) protoreflect.Value {
	n := int(fd.Number())*3 + salt + 1
	switch fd.Kind() {
	case protoreflect.BoolKind:
		return protoreflect.ValueOfBool(true)
	case protoreflect.EnumKind:
		vs := fd.Enum().Values()
		v := vs.Get(n % vs.Len()).Number()
		if v == 0 && vs.Len() > 1 {
			v = vs.Get(1).Number()
		}
		return protoreflect.ValueOfEnum(v)
	case protoreflect.Int32Kind, protoreflect.Sint32Kind, protoreflect.Sfixed32Kind:
		return protoreflect.ValueOfInt32(int32(n))
	case protoreflect.Int64Kind, protoreflect.Sint64Kind, protoreflect.Sfixed64Kind:
		return protoreflect.ValueOfInt64(int64(n))
	case protoreflect.Uint32Kind, protoreflect.Fixed32Kind:
		return protoreflect.ValueOfUint32(uint32(n))
	case protoreflect.Uint64Kind, protoreflect.Fixed64Kind:
		return protoreflect.ValueOfUint64(uint64(n))
	case protoreflect.FloatKind:
		return protoreflect.ValueOfFloat32(float32(n) + 0.5)
	case protoreflect.DoubleKind:
		return protoreflect.ValueOfFloat64(float64(n) + 0.25)
	case protoreflect.StringKind:
		return protoreflect.ValueOfString("s" + string(rune('a'+n%26)) + string(rune('a'+(n/26)%26)))
	case protoreflect.BytesKind:
		return protoreflect.ValueOfBytes([]byte{byte(n), byte(n >> 8), 1})
	}
	panic("scalarValue: " + string(fd.FullName()))
}

// populatedCount reports how many top-level fields of m are set (used to tell trivial cases apart).
func populatedCount(m proto.Message) int {
	n := 0
	if m == nil {
		return 0
	}
	m.ProtoReflect().Range(func(protoreflect.FieldDescriptor, protoreflect.Value) bool { n++; return true })
	return n
}
