package main

import (
	"context"
	"fmt"

	"github.com/smart-core-os/sc-api/go/traits"
	"google.golang.org/protobuf/proto"

	"github.com/smart-core-os/sc-golang/pkg/resource"
)

// maskOptionOrder: read options are applied in the order given and the last read mask decides, a nil mask included
// ("nil mask means everything"): code that appends WithReadMask(request.ReadMask) to its defaults relies on it.
// [mask, nil] reads everything, [nil, mask] reads the projection, on every read entry point.
func (m *mon) maskOptionOrder() {
	r := m.r
	if r.Shard != 0 {
		return
	}
	stored := &traits.Brightness{LevelPercent: 40, TargetLevelPercent: 60, Preset: &traits.LightPreset{Name: "p", Title: "P"}}
	masked := &traits.Brightness{LevelPercent: 40}
	withMask := resource.WithReadPaths(&traits.Brightness{}, "level_percent")
	orders := []struct {
		name string
		opts []resource.ReadOption
		want proto.Message
	}{
		{"mask-then-nil", []resource.ReadOption{withMask, resource.WithReadMask(nil)}, stored},
		{"nil-then-mask", []resource.ReadOption{resource.WithReadMask(nil), withMask}, masked},
	}
	for _, o := range orders {
		val := resource.NewValue(resource.WithInitialValue(proto.Clone(stored)))
		col := resource.NewCollection(resource.WithInitialRecord("x", proto.Clone(stored)))
		got := map[string]proto.Message{}
		got["Value.Get"] = val.Get(o.opts...)
		got["Collection.Get"], _ = col.Get("x", o.opts...)
		if l := col.List(o.opts...); len(l) == 1 {
			got["Collection.List"] = l[0]
		}
		ctx, cancel := context.WithCancel(context.Background())
		if e, ok := <-val.Pull(ctx, o.opts...); ok {
			got["Value.Pull.seed"] = e.Value
		}
		if e, ok := <-col.Pull(ctx, o.opts...); ok {
			got["Collection.Pull.seed"] = e.NewValue
		}
		if e, ok := <-col.PullID(ctx, "x", o.opts...); ok {
			got["Collection.PullID.seed"] = e.Value
		}
		cancel()
		for _, entry := range []string{"Value.Get", "Collection.Get", "Collection.List", "Value.Pull.seed", "Collection.Pull.seed", "Collection.PullID.seed"} {
			r.Eval(1)
			r.Count("mask-option-order-cases", 1)
			r.Distinct("maskorder|" + o.name + "|" + entry)
			if g := got[entry]; g == nil || !proto.Equal(g, o.want) {
				r.Violation("C06/projection/"+entry+"/option-order/"+o.name, fmt.Sprintf("%s with read options %s returned %s, want %s (the last read mask given decides, nil means everything)", entry, o.name, jsonOrNil(g), jsonOrNil(o.want)), map[string]any{"entry": entry, "order": o.name})
			}
		}
	}
	r.MustQuiesce("c06-mask-order")
}

func jsonOrNil(m proto.Message) string {
	if m == nil {
		return "<nothing>"
	}
	return fmt.Sprint(m)
}
