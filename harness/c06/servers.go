package main

import (
	"context"
	"fmt"
	"os"
	"sort"
	"strings"
	"sync"

	"google.golang.org/grpc"
	"google.golang.org/protobuf/proto"
	"google.golang.org/protobuf/reflect/protoreflect"
	"google.golang.org/protobuf/reflect/protoregistry"

	"github.com/smart-core-os/sc-golang/internal/verif/srvkit"
	"github.com/smart-core-os/sc-golang/internal/verif/vk"
)

// traitServerPhase: the "never mutate" clause on the trait messages, through every trait model server. A server is
// populated by a short random history, every reading RPC (a request type with a read_mask field) is called without
// a mask twice (a response that differs between the two calls is time- or call-dependent and is left out), then
// several reads WITH masks of top-level and nested paths are made (unary reads and opened Pull streams), and the
// unmasked reads are repeated: they must return what they returned before. The masked response itself (unary, and
// the first messages of a Pull stream next to two unmasked streams of the same request) is compared with the
// reference projection of the unmasked one: every element must be the projection of the stored element. An element
// returned whole comes from a server path that never applies the mask (wastepb's list and history replay); that is
// counted, not judged: the statement is about the resource and the response filters, not about which servers use them.
func (m *mon) traitServerPhase() {
	r := m.r
	table := srvkit.ServerTable()
	per := r.Pick(16, 200)
	caseNo := 0
	for _, ent := range table {
		for k := 0; k < per; k++ {
			caseNo++
			if !r.Mine(caseNo) {
				continue
			}
			ent := ent
			cn := caseNo
			if !r.Guard(fmt.Sprintf("c06-srv/%s/%d", ent.Name, k), map[string]any{"server": ent.Name, "case": cn}) {
				continue
			}
			m.traitServerCase(ent, r.CaseRand("c06-srv/"+ent.Name, k), cn)
			r.Unguard()
		}
	}
	r.Require("trait-server/masked-reads", r.Pick(800, 10000))
	r.Require("trait-server/rereads-compared", r.Pick(800, 10000))
}

type srvMeth struct {
	s      srvkit.Svc
	unary  *grpc.MethodDesc
	stream *grpc.StreamDesc
	name   string
	in     protoreflect.MessageDescriptor
	reader bool
}

func methodsOf(svcs []srvkit.Svc) []srvMeth {
	var ms []srvMeth
	for _, s := range svcs {
		var sd protoreflect.ServiceDescriptor
		if d, err := protoregistry.GlobalFiles.FindDescriptorByName(protoreflect.FullName(s.Desc.ServiceName)); err == nil {
			sd, _ = d.(protoreflect.ServiceDescriptor)
		}
		in := func(name string) (protoreflect.MessageDescriptor, bool) {
			if sd == nil {
				return nil, false
			}
			md := sd.Methods().ByName(protoreflect.Name(name))
			if md == nil {
				return nil, false
			}
			return md.Input(), md.Input().Fields().ByName("read_mask") != nil
		}
		for i := range s.Desc.Methods {
			d, rd := in(s.Desc.Methods[i].MethodName)
			ms = append(ms, srvMeth{s: s, unary: &s.Desc.Methods[i], name: s.Desc.Methods[i].MethodName, in: d, reader: rd})
		}
		for i := range s.Desc.Streams {
			if s.Desc.Streams[i].ServerStreams && !s.Desc.Streams[i].ClientStreams {
				d, rd := in(s.Desc.Streams[i].StreamName)
				ms = append(ms, srvMeth{s: s, stream: &s.Desc.Streams[i], name: s.Desc.Streams[i].StreamName, in: d, reader: rd})
			}
		}
	}
	sort.Slice(ms, func(i, j int) bool { return ms[i].name < ms[j].name })
	return ms
}

func (m *mon) traitServerCase(ent srvkit.ServerEntry, rng *vk.Rand, caseNo int) {
	r := m.r
	svcs := ent.Mk()
	ms := methodsOf(svcs)
	pool := &srvkit.IDPool{Masks: false}
	call := func(mt srvMeth, fill func(req proto.Message)) (proto.Message, error, bool) {
		var resp any
		var err error
		dec := func(x any) error { fill(x.(proto.Message)); return nil }
		panicked, what := vk.Recover(func() { resp, err = mt.unary.Handler(mt.s.Impl, context.Background(), dec, nil) })
		if panicked {
			r.Count("trait-server/panics", 1)
			r.Count("trait-server/panics/"+ent.Name+"."+mt.name, 1)
			if r.WantSample("srv-panic/" + ent.Name + "." + mt.name) {
				r.Sample("srv-panic/"+ent.Name+"."+mt.name, what)
				if os.Getenv("VERIF_DEBUG") != "" {
					fmt.Fprintln(os.Stderr, "DEBUG panic", ent.Name, mt.name, trunc(what))
				}
			}
			if mt.reader {
				r.Violation(fmt.Sprintf("C06/panic/%s.%s", ent.Name, mt.name), fmt.Sprintf("server case %d: %s panicked: %s", caseNo, mt.name, trunc(what)), map[string]any{"server": ent.Name, "case": caseNo})
			}
			return nil, nil, true
		}
		pm, _ := resp.(proto.Message)
		if pm != nil {
			pool.Harvest(pm.ProtoReflect(), 0)
		}
		return pm, err, false
	}
	// 1. populate
	var writers, readers, streams []srvMeth
	for _, mt := range ms {
		switch {
		case mt.stream != nil && mt.reader:
			streams = append(streams, mt)
		case mt.stream != nil:
		case mt.reader:
			readers = append(readers, mt)
		default:
			writers = append(writers, mt)
		}
	}
	if len(readers) == 0 {
		r.Count("trait-server/no-reader-rpc", 1)
		return
	}
	steps := rng.Range(4, 14)
	for i := 0; i < steps && len(writers) > 0; i++ {
		mt := writers[rng.Intn(len(writers))]
		call(mt, func(req proto.Message) {
			proto.Merge(req, vk.GenMessage(rng, req, vk.GenOpts{Density: 45, MaxDepth: 2, MaxList: 2}))
			// writes carry their payload: an absent top-level message makes most servers reject (or dislike) the call
			fds := req.ProtoReflect().Descriptor().Fields()
			for i := 0; i < fds.Len(); i++ {
				fd := fds.Get(i)
				if fd.Message() != nil && !fd.IsList() && !fd.IsMap() && !req.ProtoReflect().Has(fd) && fd.Message().FullName() != "google.protobuf.FieldMask" {
					sub := req.ProtoReflect().Mutable(fd).Message().Interface()
					proto.Merge(sub, vk.GenMessage(rng, sub, vk.GenOpts{Density: 60, MaxDepth: 2, MaxList: 2}))
				}
			}
			pool.Apply(rng, req.ProtoReflect(), 0)
		})
	}
	// 2. unmasked snapshot, twice, with fixed requests
	type snap struct {
		mt   srvMeth
		req  proto.Message
		resp proto.Message
		err  string
	}
	var snaps []*snap
	for _, mt := range readers {
		for v := 0; v < 2; v++ {
			var fixed proto.Message
			fill := func(req proto.Message) {
				if fixed == nil {
					proto.Merge(req, vk.GenMessage(rng, req, vk.GenOpts{Density: 20, MaxDepth: 1, MaxList: 1}))
					pool.Apply(rng, req.ProtoReflect(), 0)
					fixed = proto.Clone(req)
				} else {
					proto.Reset(req)
					proto.Merge(req, fixed)
				}
			}
			r0, e0, p0 := call(mt, fill)
			r1, e1, p1 := call(mt, fill)
			if p0 || p1 {
				continue
			}
			if (e0 == nil) != (e1 == nil) || (e0 == nil && !vk.SameMessage(r0, r1)) {
				r.Count("trait-server/call-dependent-read-skipped", 1)
				continue
			}
			s := &snap{mt: mt, req: fixed}
			if e0 != nil {
				s.err = e0.Error()
			} else {
				s.resp = proto.Clone(r0)
			}
			snaps = append(snaps, s)
		}
	}
	if _, ok := r.MustQuiesce("c06-srv"); !ok {
		return
	}
	// 3. masked reads
	var cancels []context.CancelFunc
	var did []string
	nm := rng.Range(1, 4)
	for i := 0; i < nm; i++ {
		all := append(append([]srvMeth{}, readers...), streams...)
		mt := all[rng.Intn(len(all))]
		target := srvkit.ReadTarget(mt.in)
		if target == nil {
			continue
		}
		paths := srvkit.PathsOf(rng, target)
		setMask := func(req proto.Message) {
			fd := req.ProtoReflect().Descriptor().Fields().ByName("read_mask")
			fm := req.ProtoReflect().Mutable(fd).Message()
			l := fm.Mutable(fm.Descriptor().Fields().ByName("paths")).List()
			l.Truncate(0)
			for _, p := range paths {
				l.Append(protoreflect.ValueOfString(p))
			}
		}
		nested := false
		for _, p := range paths {
			if strings.Contains(p, ".") {
				nested = true
			}
		}
		did = append(did, fmt.Sprintf("%s%v", mt.name, paths))
		if mt.stream != nil {
			ctx, cancel := context.WithCancel(context.Background())
			cancels = append(cancels, cancel)
			unmasked := rng.Chance(1, 3) // a stream without a mask (nil mask: everything) must not touch the store either
			// the request is generated once; the masked stream and two unmasked reference streams use the same one
			var fixed proto.Message
			h := mt.stream.Handler
			open := func(masked bool) func() []proto.Message {
				var mu sync.Mutex
				var sent []proto.Message
				fs := &srvkit.FakeStream{Ctx: ctx, Send: func(pm proto.Message) { mu.Lock(); sent = append(sent, proto.Clone(pm)); mu.Unlock() }}
				fill := func(req proto.Message) {
					if fixed == nil {
						proto.Merge(req, vk.GenMessage(rng.Fork(), req, vk.GenOpts{Density: 20, MaxDepth: 1, MaxList: 1}))
						pool.Apply(rng, req.ProtoReflect(), 0)
						req.ProtoReflect().Clear(req.ProtoReflect().Descriptor().Fields().ByName("read_mask"))
						fixed = proto.Clone(req)
					} else {
						proto.Reset(req)
						proto.Merge(req, fixed)
					}
					if masked {
						setMask(req)
					}
				}
				go func() {
					vk.Recover(func() { _ = h(mt.s.Impl, &srvkit.LazyStream{FakeStream: fs, Fill: fill}) })
				}()
				return func() []proto.Message { mu.Lock(); defer mu.Unlock(); return append([]proto.Message{}, sent...) }
			}
			got := open(!unmasked)
			if _, ok := r.MustQuiesce("c06-srv-stream"); !ok {
				for _, c := range cancels {
					c()
				}
				return
			}
			if !unmasked {
				refA := open(false)
				r.MustQuiesce("c06-srv-stream-ref")
				refB := open(false)
				if _, ok := r.MustQuiesce("c06-srv-stream-ref"); !ok {
					for _, c := range cancels {
						c()
					}
					return
				}
				a, b, g := collectTargets(refA(), target), collectTargets(refB(), target), collectTargets(got(), target)
				switch {
				case !sameMultiset(a, b, vk.SameMessage):
					r.Count("trait-server/call-dependent-stream-skipped", 1)
				case len(a) == 0 && len(g) == 0:
					r.Count("trait-server/stream-without-seed", 1)
				default:
					want := make([]proto.Message, len(a))
					for i := range a {
						want[i] = vk.RefProject(a[i], paths, false)
					}
					// every delivered element is the reference projection of a stored element; an element delivered whole
					// comes from a server path that does not apply the mask at all (wastepb's history replay), which is not
					// this statement's business and is only counted. Anything else is a projection gone wrong.
					wholes := 0
					either := func(x, y proto.Message) bool {
						if sameProjection(x, vk.RefProject(y, paths, false)) {
							return true
						}
						if vk.SameMessage(x, y) {
							wholes++
							return true
						}
						return false
					}
					switch {
					case sameMultiset(g, want, sameProjection):
						r.Count("trait-server/stream-projection-agrees-with-reference", 1)
					case sameMultiset(g, a, either):
						r.Count("trait-server/stream-mask-not-honoured(not judged)", 1)
						r.Count("trait-server/stream-mask-not-honoured/"+ent.Name+"."+mt.name, 1)
					default:
						r.Violation(fmt.Sprintf("C06/trait-server/stream-projection/%s.%s", ent.Name, mt.name),
							fmt.Sprintf("server case %d: %s(%s) with read mask %v starts with %s; the same request without a mask starts with %s, whose projection is %s", caseNo, mt.name, vk.JSON(fixed), paths, renderList(g), renderList(a), renderList(want)),
							map[string]any{"server": ent.Name, "case": caseNo, "method": mt.name, "paths": paths})
					}
				}
			}
			r.Count("trait-server/masked-reads", 1)
			if unmasked {
				r.Count("trait-server/unmasked-streams-opened", 1)
			} else {
				r.Count("trait-server/masked-streams-opened", 1)
			}
		} else {
			// use the request of a snapshot of this method when there is one, so that the projection can be compared
			var base *snap
			for _, s := range snaps {
				if s.mt.name == mt.name && s.resp != nil {
					base = s
					break
				}
			}
			resp, err, panicked := call(mt, func(req proto.Message) {
				if base != nil {
					proto.Merge(req, base.req)
				} else {
					proto.Merge(req, vk.GenMessage(rng, req, vk.GenOpts{Density: 20, MaxDepth: 1, MaxList: 1}))
					pool.Apply(rng, req.ProtoReflect(), 0)
				}
				setMask(req)
			})
			if panicked {
				continue
			}
			r.Count("trait-server/masked-reads", 1)
			if nested {
				r.Count("trait-server/masked-reads-nested-path", 1)
			}
			if base != nil && err == nil && resp != nil {
				want := projectResponse(base.resp, target, paths)
				if want != nil {
					if sameProjection(resp, want) {
						r.Count("trait-server/projection-agrees-with-reference", 1)
					} else {
						if !vk.SameMessage(resp, base.resp) {
							// neither the projection nor the whole value (a server that does not look at the mask at all is not this
							// monitor's business: the statement is about the resource and response filters)
							r.Violation(fmt.Sprintf("C06/trait-server/projection/%s.%s", ent.Name, mt.name),
								fmt.Sprintf("server case %d: %s(%s) with read mask %v returns %s; without the mask it returns %s, whose projection is %s", caseNo, mt.name, vk.JSON(base.req), paths, trunc(vk.JSON(resp)), trunc(vk.JSON(base.resp)), trunc(vk.JSON(want))),
								map[string]any{"server": ent.Name, "case": caseNo, "method": mt.name, "paths": paths})
						}
						r.Count("trait-server/projection-differs-from-reference(not judged)", 1)
						r.Count("trait-server/projection-differs/"+ent.Name+"."+mt.name, 1)
						if r.WantSample("srv-proj/" + ent.Name + "." + mt.name) {
							r.Sample("srv-proj/"+ent.Name+"."+mt.name, fmt.Sprintf("paths %v: got %s want %s", paths, vk.JSON(resp), vk.JSON(want)))
							if os.Getenv("VERIF_DEBUG") != "" {
								fmt.Fprintf(os.Stderr, "DEBUG proj %s.%s paths %v: got %s want %s\n", ent.Name, mt.name, paths, vk.JSON(resp), vk.JSON(want))
							}
						}
					}
				}
			}
		}
	}
	r.Eval(1)
	r.Distinct(fmt.Sprintf("srv:%s:%s", ent.Name, strings.Join(did, ";")))
	// 4. the unmasked reads again
	for _, s := range snaps {
		fixed := s.req
		resp, err, panicked := call(s.mt, func(req proto.Message) { proto.Merge(req, fixed) })
		if panicked {
			continue
		}
		r.Count("trait-server/rereads-compared", 1)
		switch {
		case s.resp == nil && err != nil:
		case s.resp == nil || err != nil:
			r.Violation(fmt.Sprintf("C06/mutated-stored/%s.%s", ent.Name, s.mt.name), fmt.Sprintf("server case %d: after the masked reads %v, %s(%s) changed between error %q and a response (err now %v)", caseNo, did, s.mt.name, vk.JSON(fixed), s.err, err), map[string]any{"server": ent.Name, "case": caseNo})
		case !vk.SameMessage(resp, s.resp):
			r.Violation(fmt.Sprintf("C06/mutated-stored/%s.%s", ent.Name, s.mt.name), fmt.Sprintf("server case %d: after the masked reads %v, the unmasked %s(%s) returns %s; before them it returned %s", caseNo, did, s.mt.name, vk.JSON(fixed), trunc(vk.JSON(resp)), trunc(vk.JSON(s.resp))), map[string]any{"server": ent.Name, "case": caseNo})
		}
	}
	for _, c := range cancels {
		c()
	}
	r.MustQuiesce("c06-srv-end")
}

// projectResponse applies the reference projection to every message of type target in resp (the response itself, or
// the elements of its repeated field); nil when the response has no such shape.
func projectResponse(resp proto.Message, target protoreflect.MessageDescriptor, paths []string) proto.Message {
	if resp.ProtoReflect().Descriptor().FullName() == target.FullName() {
		return vk.RefProject(resp, paths, false)
	}
	out := proto.Clone(resp)
	found := false
	fds := out.ProtoReflect().Descriptor().Fields()
	for i := 0; i < fds.Len(); i++ {
		fd := fds.Get(i)
		if fd.IsList() && fd.Message() != nil && fd.Message().FullName() == target.FullName() && out.ProtoReflect().Has(fd) {
			l := out.ProtoReflect().Mutable(fd).List()
			for j := 0; j < l.Len(); j++ {
				p := vk.RefProject(l.Get(j).Message().Interface(), paths, false)
				l.Set(j, protoreflect.ValueOfMessage(p.ProtoReflect()))
			}
			found = true
		}
	}
	if !found {
		return nil
	}
	return out
}

// collectTargets returns every message of type target found in msgs, in order of appearance (depth first).
func collectTargets(msgs []proto.Message, target protoreflect.MessageDescriptor) []proto.Message {
	var out []proto.Message
	var walk func(m protoreflect.Message)
	walk = func(m protoreflect.Message) {
		if m.Descriptor().FullName() == target.FullName() {
			out = append(out, m.Interface())
			return
		}
		m.Range(func(fd protoreflect.FieldDescriptor, v protoreflect.Value) bool {
			switch {
			case fd.IsMap():
				if fd.MapValue().Message() != nil {
					v.Map().Range(func(_ protoreflect.MapKey, mv protoreflect.Value) bool { walk(mv.Message()); return true })
				}
			case fd.IsList():
				if fd.Message() != nil {
					for i := 0; i < v.List().Len(); i++ {
						walk(v.List().Get(i).Message())
					}
				}
			case fd.Message() != nil:
				walk(v.Message())
			}
			return true
		})
	}
	for _, m := range msgs {
		walk(m.ProtoReflect())
	}
	return out
}

// sameMultiset: a and b hold the same messages (under same) irrespective of order.
func sameMultiset(a, b []proto.Message, same func(x, y proto.Message) bool) bool {
	if len(a) != len(b) {
		return false
	}
	used := make([]bool, len(b))
outer:
	for _, x := range a {
		for j, y := range b {
			if !used[j] && same(x, y) {
				used[j] = true
				continue outer
			}
		}
		return false
	}
	return true
}

func renderList(l []proto.Message) string {
	var ss []string
	for _, m := range l {
		ss = append(ss, vk.JSON(m))
	}
	return trunc("[" + strings.Join(ss, ", ") + "]")
}
