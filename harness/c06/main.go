// Monitor for C06: reads return exactly the read-mask projection and never mutate.
//
// Every read entry point that takes a read mask (masks.ResponseFilter Validate/Filter/FilterClone,
// resource.ReadRequest.FilterClone, Value.Get/Pull, Collection.Get/List/Pull/PullID) is executed on generated
// (message, mask) pairs; what comes back is compared with the independent projection vk.RefProject, the stored /
// passed-in messages are compared with deep copies taken before the read, validation is compared with the
// reference classification of the mask, and panics are caught (caller goroutine: recover; library goroutine:
// crash isolation through r.Guard).
package main

import (
	"fmt"
	"hash/fnv"
	"math"
	"runtime/debug"
	"sort"
	"strings"
	"time"

	"github.com/smart-core-os/sc-api/go/traits"
	"google.golang.org/protobuf/proto"
	"google.golang.org/protobuf/reflect/protoreflect"
	"google.golang.org/protobuf/types/known/fieldmaskpb"

	"github.com/smart-core-os/sc-golang/internal/testproto"
	"github.com/smart-core-os/sc-golang/internal/verif/vk"
	"github.com/smart-core-os/sc-golang/pkg/masks"
	"github.com/smart-core-os/sc-golang/pkg/resource"
)

func main() { vk.Main("C06", run) }

type mon struct {
	r       *vk.Run
	caseN   int
	minBudg map[string]int // (entry, clause, pre-class) -> minimisations left
}

var traitTypes = []proto.Message{
	&traits.Brightness{}, &traits.AirTemperature{}, &traits.ElectricMode{}, &traits.Metadata{},
}

func run(r *vk.Run) {
	r.Describe("cases are (message type, 3 messages, mask, driving variant): (1) bounded-exhaustive: nil mask, empty mask and every set of <=3 paths from a pool over TestAllTypes "+
		"(all field kinds, nested, co-recursive, well-known, oneof arm, through repeated messages, parent+child, siblings) x 8 stored messages (full, empty, shells-only, scalars-only, nested-only, 3 random), "+
		"plus every set of <=2 descriptor-derived paths x 3 messages for Brightness, AirTemperature, ElectricMode, Metadata; (2) random messages and masks of 1-6 paths with duplicates, parents, children, random order; "+
		"(3) every systematically corrupted path (unknown segment; continuation through scalar / map / repeated scalar; empty segment) alone and combined with a valid path, through every entry point. "+
		"Each case runs through Filter, FilterClone, ReadRequest.FilterClone, Value.Get, Collection.Get, Collection.List (and Value.Pull, Collection.Pull, Collection.PullID for a fixed fraction). "+
		"A case is distinct by (type, mask, stored message) and non-trivial when the stored message has >=2 populated fields and the mask is nil, empty, corrupted, or selects a proper non-empty part of it.",
		"whether the empty shell of an unselected parent message appears in a projection is left open by the statement: results are accepted with or without such shells (counted)",
		"a path through a repeated message field projects each element (design C06); validation must still report such a path invalid ('repeated field')",
		"messages carry no unknown fields in judged cases; retention of unknown fields by a masked read is counted, not judged",
		"WithReadPaths is documented to panic on invalid paths: that panic is treated as validation rejecting the mask, not as a read panicking",
		"projection of a corrupted mask is not judged (only: no panic, no mutation, validation reports it), with one exception: a mask all of whose paths start with a name the message type does not have must select nothing")
	m := &mon{r: r, minBudg: map[string]int{}}
	debug.SetGCPercent(400) // short-lived clones dominate; memory stays small
	t0 := time.Now()
	lap := func(name string) { // wall-clock only as a remark in the evidence, never in a decision
		if r.Shard == 0 {
			r.Note("phase %s finished at %.1fs (worker 0)", name, time.Since(t0).Seconds())
		}
	}
	m.canaries()
	lap("canaries")
	m.corruptPhase()
	lap("corrupt")
	m.exhaustivePhase()
	lap("exhaustive")
	m.randomPhase()
	lap("random")
	m.unknownFieldObservations()
	m.multiSubscriberPhase()
	lap("multi-subscriber")
	m.traitServerPhase()
	m.maskOptionOrder()
	lap("trait-servers")

	q := r.Quick()
	pick := func(a, b int) int {
		if q {
			return a
		}
		return b
	}
	for _, e := range entries {
		min := pick(2000, 20000)
		if e.pull || e.rare {
			min = pick(1000, 10000)
		}
		r.Require("ep/"+e.name, min)
	}
	for _, c := range []vk.PathClass{vk.PathUnknown, vk.PathThroughScalar, vk.PathThroughMap, vk.PathThroughRepSc, vk.PathEmpty} {
		r.Require("corrupt-mask/"+c.String(), 30)
	}
	r.Require("nontrivial-cases", pick(20000, 200000))
	r.Require("projections-compared", pick(200000, 2000000))
	r.Require("projections-compared/pull-events", pick(20000, 500000))
	r.Require("mask/parent+child", 500)
	r.Require("mask/contains-path-through-repeated-message", 500)
	r.Require("mask/nil-mask", 20)
	r.Require("mask/empty-mask", 20)
	r.Require("validate/accepted-valid", 1000)
	r.Require("validate/rejected-invalid", 400)
	r.Require("watched-messages-verified", pick(100000, 1000000))
}

// ---------------------------------------------------------------------------------------------------------------
// Judging one (entry point, input).

type failure struct {
	clause string // panic | mutated-stored | mutated-input | mutated-mask | shape | projection
	kind   string // observation kind for projection failures
	detail func() string
}

func text(s string) func() string { return func() string { return s } }

func (f failure) id() string { return f.clause + ":" + f.kind }

func allUnknownTopLevel(md protoreflect.MessageDescriptor, paths []string) bool {
	for _, p := range paths {
		first := p
		if i := strings.IndexByte(p, '.'); i >= 0 {
			first = p[:i]
		}
		if first == "" || md.Fields().ByName(protoreflect.Name(first)) != nil {
			return false
		}
	}
	return true
}

// evaluate runs ep on in and returns everything that contradicts the property. silent runs count nothing.
func (m *mon) evaluate(ep *entry, in *input, silent bool) (fs []failure, harnessErr string) {
	var out outcome
	panicked, what := vk.Recover(func() { out = ep.run(in) })
	if panicked {
		if strings.HasPrefix(what, "harness:") {
			return nil, what
		}
		return []failure{{clause: "panic", detail: text(what)}}, ""
	}
	for _, mu := range out.mutated {
		cl := "mutated-stored"
		switch {
		case strings.HasPrefix(mu, "input"):
			cl = "mutated-input"
		case strings.HasPrefix(mu, "mask"):
			cl = "mutated-mask"
		}
		fs = append(fs, failure{clause: cl, detail: text(mu)})
	}
	for _, s := range out.shape {
		fs = append(fs, failure{clause: "shape", detail: text(s)})
	}
	if !silent {
		m.r.Count("watched-messages-verified", out.watched)
	}
	if !projectable(in.md, in.paths) {
		// what a read with a corrupted mask returns is not judged: only panics and mutations are
		if !silent {
			m.r.Count("corrupt-read-returned-without-panic", 1)
			if out.closedNoCrash {
				m.r.Count("corrupt-pull-stream-ended-early-without-crash", 1)
			}
		}
		keep := fs[:0]
		for _, f := range fs {
			if f.clause != "shape" {
				keep = append(keep, f)
			}
		}
		// one narrow case is judged all the same: a mask every path of which starts with a name the message type does
		// not have selects none of its fields, whatever else an implementation does with bad masks
		if len(in.paths) > 0 && allUnknownTopLevel(in.md, in.paths) {
			for _, o := range out.obs {
				if o.got != nil && o.got.ProtoReflect().IsValid() && !isEmpty(o.got.ProtoReflect()) {
					o := o
					keep = append(keep, failure{clause: "projection", kind: o.kind + "/unknown-fields-only", detail: func() string {
						return fmt.Sprintf("the mask %v names no field of %s, yet the read returned %s (stored/passed %s)", in.paths, in.md.FullName(), vk.JSON(o.got), vk.JSON(o.src))
					}})
				}
			}
			if !silent {
				m.r.Count("unknown-only-masks-judged", 1)
			}
		}
		return keep, ""
	}
	var tree *node
	if !in.nilMask {
		tree = buildTree(in.paths)
	}
	for _, o := range out.obs {
		want := vk.RefProject(o.src, in.paths, in.nilMask)
		res := compareProjection(o.got, want, tree)
		if !silent {
			m.r.Count("projections-compared", 1)
			if ep.pull {
				m.r.Count("projections-compared/pull-events", 1)
			}
			if res == cmpShells {
				m.r.Count("accepted-differing-only-in-empty-parent-shells", 1)
			}
		}
		if res == cmpDifferent {
			o := o
			fs = append(fs, failure{clause: "projection", kind: o.kind, detail: func() string {
				return fmt.Sprintf("returned %s\nreference projection %s\nstored/passed %s", vk.JSON(o.got), vk.JSON(want), vk.JSON(o.src))
			}})
		}
	}
	return fs, ""
}

func minimise(paths []string, fails func([]string) bool) []string {
	cur := append([]string(nil), paths...)
	for changed := true; changed && len(cur) > 1; {
		changed = false
		for i := range cur {
			cand := append(append([]string{}, cur[:i]...), cur[i+1:]...)
			if fails(cand) {
				cur, changed = cand, true
				break
			}
		}
	}
	return cur
}

func (m *mon) replay(ep string, in *input) map[string]any {
	ms := make([]string, len(in.msgs))
	for i, x := range in.msgs {
		ms[i] = vk.JSON(x)
	}
	return map[string]any{"entry": ep, "type": string(in.md.FullName()), "paths": in.paths, "nil_mask": in.nilMask,
		"variant": in.variant, "messages": ms}
}

// check runs one entry point on one input and reports violations under minimised, structural keys.
func (m *mon) check(ep *entry, in *input) {
	r := m.r
	valid := projectable(in.md, in.paths)
	pre := maskClass(in.md, in.paths, in.nilMask)
	guarded := false
	if ep.pull && !valid {
		// the mask is applied on a goroutine of the library: a panic there ends the process
		key := "C06/panic/" + ep.name + "/" + pre
		if !r.Guard(key, m.replay(ep.name, in)) {
			return
		}
		guarded = true
	}
	fs, herr := m.evaluate(ep, in, false)
	if guarded {
		r.Unguard()
	}
	r.Eval(1)
	r.Count("ep/"+ep.name, 1)
	if herr != "" {
		r.Inconclusive("C06/harness/"+ep.name, herr)
		return
	}
	for _, f := range fs {
		cls := pre
		head := fmt.Sprintf("mask %v nil=%v", in.paths, in.nilMask)
		if valid && !in.nilMask && len(in.paths) > 1 {
			bk := ep.name + "|" + f.id() + "|" + pre
			left, ok := m.minBudg[bk]
			if !ok {
				left = 40
			}
			if left == 0 {
				r.Count("failures-beyond-minimisation-budget", 1)
				continue
			}
			m.minBudg[bk] = left - 1
			id := f.id()
			min := minimise(in.paths, func(p []string) bool {
				in2 := *in
				in2.paths = p
				fs2, _ := m.evaluate(ep, &in2, true)
				for _, g := range fs2 {
					if g.id() == id {
						return true
					}
				}
				return false
			})
			cls = maskClass(in.md, min, false)
			head = fmt.Sprintf("minimal failing mask %v (from %v)", min, in.paths)
		}
		name := ep.name
		if f.kind != "" {
			name += "." + f.kind
		}
		key := "C06/" + f.clause + "/" + name + "/" + cls
		if r.Violated(key) {
			r.Violation(key, "", nil) // counted only
			continue
		}
		r.Violation(key, head+"\n"+f.detail(), m.replay(ep.name, in))
	}
}

// validation compares ResponseFilter.Validate and WithReadPaths with the reference classification.
func (m *mon) validation(in *input) {
	r := m.r
	md := in.md
	refValid := in.nilMask || vk.MaskValid(md, in.paths)
	accepts := func(paths []string, nilMask bool) (ok bool, panicked bool, what string) {
		var mask *fieldmaskpb.FieldMask
		if !nilMask {
			mask = &fieldmaskpb.FieldMask{Paths: append([]string(nil), paths...)}
		}
		msg := clone(in.msgs[0])
		var err error
		panicked, what = vk.Recover(func() { err = masks.NewResponseFilter(masks.WithFieldMask(mask)).Validate(msg) })
		if !vk.SameMessage(msg, in.msgs[0]) {
			r.Violation("C06/mutated-input/Validate/"+maskClass(md, paths, nilMask), "Validate changed the message: "+vk.JSON(msg), m.replay("Validate", in))
		}
		return err == nil, panicked, what
	}
	ok, panicked, what := accepts(in.paths, in.nilMask)
	r.Eval(1)
	r.Count("ep/Validate", 1)
	switch {
	case panicked:
		r.Violation("C06/panic/Validate/"+maskClass(md, in.paths, in.nilMask), fmt.Sprintf("mask %v: %s", in.paths, what), m.replay("Validate", in))
	case ok && !refValid:
		min := minimise(in.paths, func(p []string) bool { a, _, _ := accepts(p, false); return a && !vk.MaskValid(md, p) })
		r.Violation("C06/validate-accepts/Validate/"+worstClass(md, min).String(), fmt.Sprintf("Validate accepted mask %v", min), m.replay("Validate", in))
	case !ok && refValid:
		min := in.paths
		if !in.nilMask {
			min = minimise(in.paths, func(p []string) bool { a, _, _ := accepts(p, false); return !a && vk.MaskValid(md, p) })
		}
		r.Violation("C06/validate-rejects/Validate/"+maskClass(md, min, in.nilMask), fmt.Sprintf("Validate rejected valid mask %v", min), m.replay("Validate", in))
	case ok:
		r.Count("validate/accepted-valid", 1)
	default:
		r.Count("validate/rejected-invalid", 1)
		r.Count("validate/rejected-invalid/"+worstClass(md, in.paths).String(), 1)
	}
	if in.nilMask {
		return
	}
	// WithReadPaths: documented to panic when the paths are not part of the message
	p2, _ := vk.Recover(func() { _ = resource.WithReadPaths(in.msgs[0], in.paths...) })
	r.Eval(1)
	r.Count("ep/WithReadPaths", 1)
	switch {
	case !p2 && !refValid:
		r.Violation("C06/validate-accepts/WithReadPaths/"+worstClass(md, in.paths).String(), fmt.Sprintf("WithReadPaths accepted %v", in.paths), m.replay("WithReadPaths", in))
	case p2 && refValid:
		r.Violation("C06/validate-rejects/WithReadPaths/"+maskClass(md, in.paths, false), fmt.Sprintf("WithReadPaths panicked on valid %v", in.paths), m.replay("WithReadPaths", in))
	}
}

func msgHash(ms ...proto.Message) string {
	h := fnv.New64a()
	for _, x := range ms {
		b, _ := proto.MarshalOptions{Deterministic: true}.Marshal(x)
		h.Write(b)
		h.Write([]byte{0xff})
	}
	return fmt.Sprintf("%016x", h.Sum64())
}

// runCase pushes one input through validation and the entry points and records the evidence for it.
func (m *mon) runCase(phase string, in *input, withPull bool) {
	r := m.r
	cls := maskClass(in.md, in.paths, in.nilMask)
	short := cls
	if i := strings.LastIndexByte(cls, ':'); i >= 0 && strings.Contains(cls, "single:") {
		short = cls[:i] // counters: do not split single-path masks by field kind
	}
	r.Count("cases/"+phase, 1)
	r.Count("mask/"+short, 1)
	if worstClass(in.md, in.paths) == vk.PathThroughRepMsg {
		r.Count("mask/contains-path-through-repeated-message", 1)
	}
	if strings.HasSuffix(cls, "parent+child") {
		r.Count("mask/parent+child", 1)
	}
	valid := projectable(in.md, in.paths)
	if !valid {
		r.Count("corrupt-mask/"+worstClass(in.md, in.paths).String(), 1)
	}
	// non-trivial?
	nontrivial := false
	if populatedCount(in.msgs[0]) >= 2 {
		switch {
		case in.nilMask || len(in.paths) == 0 || !valid:
			nontrivial = true
		default:
			w := vk.RefProject(in.msgs[0], in.paths, false)
			nontrivial = !isEmpty(w.ProtoReflect()) && !vk.SameMessage(w, in.msgs[0])
		}
	}
	if nontrivial {
		r.Count("nontrivial-cases", 1)
		r.Distinct(fmt.Sprintf("%s|%v|%v|%s", in.md.FullName(), in.nilMask, in.paths, msgHash(in.msgs[0])))
	}
	m.validation(in)
	for _, e := range entries {
		if e.pull && !withPull || e.rare && in.variant%8 != 0 {
			continue
		}
		m.check(e, in)
	}
	if nontrivial && valid && r.WantSample(phase+"/"+short) {
		got := masks.NewResponseFilter(masks.WithFieldMask(in.mask())).FilterClone(clone(in.msgs[0]))
		r.Sample(phase+"/"+short, map[string]any{"type": string(in.md.FullName()), "mask": in.paths, "nil_mask": in.nilMask,
			"stored": trunc(vk.JSON(in.msgs[0])), "FilterClone_returned": trunc(vk.JSON(got)),
			"reference": trunc(vk.JSON(vk.RefProject(in.msgs[0], in.paths, in.nilMask)))})
	}
}

// gen is vk.GenMessage with negative zeros replaced by +0: proto.Clone (used by the harness for its shadow copies
// and by the library) does not preserve the sign of a zero in a field without presence, which is not what C06 is about.
func gen(rng *vk.Rand, like proto.Message, o vk.GenOpts) proto.Message {
	x := vk.GenMessage(rng, like, o)
	fixNegZero(x.ProtoReflect())
	return x
}

func fixNegZero(m protoreflect.Message) {
	fixv := func(fd protoreflect.FieldDescriptor, v protoreflect.Value) (protoreflect.Value, bool) {
		switch fd.Kind() {
		case protoreflect.FloatKind:
			if f := v.Float(); f == 0 && math.Signbit(f) {
				return protoreflect.ValueOfFloat32(0), true
			}
		case protoreflect.DoubleKind:
			if f := v.Float(); f == 0 && math.Signbit(f) {
				return protoreflect.ValueOfFloat64(0), true
			}
		}
		return v, false
	}
	type fix struct {
		fd protoreflect.FieldDescriptor
		v  protoreflect.Value
	}
	var fixes []fix
	m.Range(func(fd protoreflect.FieldDescriptor, v protoreflect.Value) bool {
		switch {
		case fd.IsMap():
			mp := v.Map()
			vd := fd.MapValue()
			var ks []protoreflect.MapKey
			mp.Range(func(k protoreflect.MapKey, e protoreflect.Value) bool {
				if vd.Message() != nil {
					fixNegZero(e.Message())
				} else if _, ch := fixv(vd, e); ch {
					ks = append(ks, k)
				}
				return true
			})
			for _, k := range ks {
				nv, _ := fixv(vd, mp.Get(k))
				mp.Set(k, nv)
			}
		case fd.IsList():
			l := v.List()
			for i := 0; i < l.Len(); i++ {
				if fd.Message() != nil {
					fixNegZero(l.Get(i).Message())
				} else if nv, ch := fixv(fd, l.Get(i)); ch {
					l.Set(i, nv)
				}
			}
		case fd.Message() != nil:
			fixNegZero(v.Message())
		default:
			if nv, ch := fixv(fd, v); ch {
				fixes = append(fixes, fix{fd, nv})
			}
		}
		return true
	})
	for _, f := range fixes {
		m.Set(f.fd, f.v)
	}
}

func trunc(s string) string {
	if len(s) > 700 {
		return s[:700] + "…"
	}
	return s
}

// ---------------------------------------------------------------------------------------------------------------
// Phases.

func fullMsg(like proto.Message, salt int) proto.Message {
	x := like.ProtoReflect().New()
	populate(x, 2, salt)
	return x.Interface()
}

// canaries: every worker first probes each library-goroutine entry point with one canonical mask of each corrupted
// class on a fully populated message, so that a process-killing panic is met (and its key skipped afterwards) at the
// very start of the worker instead of deep inside a later phase.
func (m *mon) canaries() {
	like := &testproto.TestAllTypes{}
	md := like.ProtoReflect().Descriptor()
	full := fullMsg(like, 1)
	for _, p := range []string{"map_string_string.key", "map_string_nested_message.a", "repeated_int32.x", "repeated_string.x",
		"default_int32.x", "nope", "default_nested_message.nope", "", "repeated_nested_message.corecursive.map_int32_int32.key"} {
		in := &input{md: md, msgs: [3]proto.Message{full, full, fullMsg(like, 2)}, paths: []string{p}}
		for _, e := range entries {
			if e.pull {
				m.check(e, in)
			}
		}
		m.r.Count("cases/canary", 1)
	}
}

func (m *mon) corruptPhase() {
	r := m.r
	rng := r.Rand("corrupt")
	types := append([]proto.Message{&testproto.TestAllTypes{}}, traitTypes...)
	for _, like := range types {
		md := like.ProtoReflect().Descriptor()
		valid := genPool(md, 1)
		cps := corruptPaths(md)
		r.Count("corrupt-paths-generated", 0)
		if r.Shard == 0 {
			r.Count("corrupt-paths-generated", len(cps))
		}
		full := fullMsg(like, 1)
		other := gen(rng, like, vk.GenOpts{Density: 50, MaxDepth: 2, MaxList: 2})
		for ci, cp := range cps {
			c := vk.ClassifyPath(md, cp)
			if c == vk.PathValid || c == vk.PathThroughRepMsg {
				r.Inconclusive("C06/harness/corrupt-generator", "generated path "+cp+" is not corrupted")
				continue
			}
			v := valid[ci%len(valid)]
			for form, paths := range [][]string{{cp}, {v, cp}, {cp, v}} {
				for mi, msg := range []proto.Message{full, other} {
					m.caseN++
					if !r.Mine(m.caseN) {
						continue
					}
					in := &input{md: md, msgs: [3]proto.Message{msg, other, full}, paths: paths, variant: ci + form + mi}
					m.runCase("corrupt", in, true)
				}
			}
		}
	}
}

// subsets calls f with every subset of pool of size <= k (including the empty one).
func subsets(pool []string, k int, f func([]string)) {
	var rec func(start int, cur []string)
	rec = func(start int, cur []string) {
		f(cur)
		if len(cur) == k {
			return
		}
		for i := start; i < len(pool); i++ {
			rec(i+1, append(cur, pool[i]))
		}
	}
	rec(0, nil)
}

func (m *mon) exhaustivePhase() {
	r := m.r
	like := &testproto.TestAllTypes{}
	md := like.ProtoReflect().Descriptor()
	pool := append([]string(nil), basePool...)
	if !r.Quick() {
		pool = append(pool, extraPool...)
	}
	for _, p := range pool {
		if !projectable(md, p2s(p)) {
			r.Inconclusive("C06/harness/pool", "pool path "+p+" is not projectable")
			return
		}
	}
	rng := r.Rand("fixed-messages")
	mk := func(f func(protoreflect.Message)) proto.Message {
		x := like.ProtoReflect().New()
		f(x)
		return x.Interface()
	}
	msgs := []proto.Message{
		fullMsg(like, 1),
		mk(func(protoreflect.Message) {}),
		mk(func(x protoreflect.Message) { hollow(x, 2) }),
		mk(func(x protoreflect.Message) { // scalars only
			fds := x.Descriptor().Fields()
			for i := 0; i < fds.Len(); i++ {
				if fd := fds.Get(i); fd.Message() == nil && !fd.IsList() {
					x.Set(fd, scalarValue(fd, 5))
				}
			}
		}),
		mk(func(x protoreflect.Message) { // nested only
			fds := x.Descriptor().Fields()
			for i := 0; i < fds.Len(); i++ {
				if fd := fds.Get(i); fd.Message() != nil && !fd.IsMap() && fd.Name() != "oneof_default_nested_message" {
					setField(x, fd, 3, 7)
				}
			}
		}),
		gen(rng, like, vk.GenOpts{Density: 30, MaxDepth: 2, MaxList: 3}),
		gen(rng, like, vk.GenOpts{Density: 50, MaxDepth: 2, MaxList: 2, Special: true}),
		gen(rng, like, vk.GenOpts{Density: 70, MaxDepth: 2, MaxList: 2}),
	}
	pullEvery := r.Pick(4, 1)
	total := 0
	do := func(md protoreflect.MessageDescriptor, msgs []proto.Message, paths []string, nilMask bool) {
		for k := range msgs {
			m.caseN++
			total++
			if !r.Mine(m.caseN) {
				continue
			}
			ps := append([]string(nil), paths...)
			if m.caseN%2 == 1 { // vary the order of the paths
				for i, j := 0, len(ps)-1; i < j; i, j = i+1, j-1 {
					ps[i], ps[j] = ps[j], ps[i]
				}
			}
			in := &input{md: md, msgs: [3]proto.Message{msgs[k], msgs[(k+1)%len(msgs)], msgs[(k+3)%len(msgs)]}, paths: ps, nilMask: nilMask, variant: m.caseN / r.Shards}
			m.runCase("exhaustive", in, (m.caseN/r.Shards)%pullEvery == 0)
		}
	}
	do(md, msgs, nil, true)
	subsets(pool, 3, func(ps []string) { do(md, msgs, ps, false) })

	// trait messages: every mask of <= 2 descriptor-derived paths x (full, shells-only, random)
	for _, tl := range traitTypes {
		tmd := tl.ProtoReflect().Descriptor()
		tpool := genPool(tmd, 2)
		if r.Quick() && len(tpool) > 45 {
			// keep the quick tier bounded: every through-repeated path and a deterministic sample of the rest
			var keep []string
			for i, p := range tpool {
				if vk.ClassifyPath(tmd, p) == vk.PathThroughRepMsg || i%3 == 0 {
					keep = append(keep, p)
				}
			}
			tpool = keep
		}
		tm := []proto.Message{
			fullMsg(tl, 1),
			func() proto.Message { x := tl.ProtoReflect().New(); hollow(x, 2); return x.Interface() }(),
			gen(rng, tl, vk.GenOpts{Density: 55, MaxDepth: 3, MaxList: 3}),
		}
		r.Count("trait-pool-paths", 0)
		if r.Shard == 0 {
			r.Count("trait-pool-paths", len(tpool))
		}
		do(tmd, tm, nil, true)
		subsets(tpool, 2, func(ps []string) { do(tmd, tm, ps, false) })
	}
	r.Require("cases/exhaustive", total)
}

func p2s(p string) []string { return []string{p} }

func (m *mon) randomPhase() {
	r := m.r
	n := r.Pick(40000, 1000000)
	pullEvery := r.Pick(4, 2)
	types := append([]proto.Message{&testproto.TestAllTypes{}}, traitTypes...)
	pools := make([][]string, len(types))
	corrupt := make([][]string, len(types))
	for i, t := range types {
		pools[i] = genPool(t.ProtoReflect().Descriptor(), 3)
		corrupt[i] = corruptPaths(t.ProtoReflect().Descriptor())
	}
	for i := 0; i < n; i++ {
		if !r.Mine(i) {
			continue
		}
		rng := r.CaseRand("random", i)
		ti := 0
		if rng.Chance(45, 100) {
			ti = 1 + rng.Intn(len(traitTypes))
		}
		like := types[ti]
		md := like.ProtoReflect().Descriptor()
		var ms [3]proto.Message
		for k := range ms {
			o := vk.GenOpts{Density: rng.Range(10, 70), MaxDepth: rng.Range(1, 2), MaxList: rng.Range(1, 3), Special: rng.Chance(1, 5)}
			if rng.Chance(1, 5) {
				o.MaxDepth = 3
			}
			ms[k] = gen(rng, like, o)
		}
		if rng.Chance(1, 10) {
			ms[0] = fullMsg(like, rng.Intn(4))
		}
		pool := pools[ti]
		var paths []string
		np := rng.Range(1, 6)
		for len(paths) < np {
			switch {
			case len(paths) > 0 && rng.Chance(15, 100): // duplicate
				paths = append(paths, paths[rng.Intn(len(paths))])
			case len(paths) > 0 && rng.Chance(25, 100): // parent or child of a chosen path
				base := paths[rng.Intn(len(paths))]
				if j := strings.LastIndexByte(base, '.'); j >= 0 && rng.Bool() {
					paths = append(paths, base[:j])
				} else {
					var kids []string
					for _, p := range pool {
						if isPrefixPath(base, p) {
							kids = append(kids, p)
						}
					}
					if len(kids) > 0 {
						paths = append(paths, kids[rng.Intn(len(kids))])
					} else {
						paths = append(paths, pool[rng.Intn(len(pool))])
					}
				}
			default:
				paths = append(paths, pool[rng.Intn(len(pool))])
			}
		}
		nilMask := false
		switch rng.Intn(40) {
		case 0:
			nilMask, paths = true, nil
		case 1:
			paths = nil
		case 2, 3:
			paths[rng.Intn(len(paths))] = corrupt[ti][rng.Intn(len(corrupt[ti]))]
		}
		in := &input{md: md, msgs: ms, paths: paths, nilMask: nilMask, variant: int(rng.Intn(1 << 20))}
		m.runCase("random", in, i/r.Shards%pullEvery == 0)
	}
}

// unknownFieldObservations records (without judging) what a masked read does with unknown fields of the stored message.
func (m *mon) unknownFieldObservations() {
	r := m.r
	if r.Shard != 0 {
		return
	}
	like := &testproto.TestAllTypes{}
	for i := 0; i < 50; i++ {
		rng := r.CaseRand("unknown", i)
		msg := gen(rng, like, vk.GenOpts{Density: 50, MaxDepth: 2, MaxList: 2})
		msg.ProtoReflect().SetUnknown(protoreflect.RawFields{0xc0, 0x3e, byte(i)})
		got := masks.NewResponseFilter(masks.WithFieldMaskPaths("default_int32")).FilterClone(msg)
		if len(got.ProtoReflect().GetUnknown()) > 0 {
			r.Count("observed/unknown-fields-kept-by-masked-read", 1)
		} else {
			r.Count("observed/unknown-fields-dropped-by-masked-read", 1)
		}
	}
	keys := []string{}
	for _, e := range entries {
		keys = append(keys, e.name)
	}
	sort.Strings(keys)
	r.Note("entry points driven: Validate, WithReadPaths, %s", strings.Join(keys, ", "))
}
