package main

// Generic client over grpc.ClientConnInterface: requests and replies are the generated message types, found by
// name in the global registry and filled through protoreflect, so one driver serves every trait.

import (
	"context"
	"sync"

	"google.golang.org/grpc"
	"google.golang.org/grpc/codes"
	"google.golang.org/grpc/status"
	"google.golang.org/protobuf/proto"
	"google.golang.org/protobuf/reflect/protoreflect"
	"google.golang.org/protobuf/reflect/protoregistry"
	"google.golang.org/protobuf/types/known/fieldmaskpb"
)

func newMsg(md protoreflect.MessageDescriptor) protoreflect.Message {
	mt, err := protoregistry.GlobalTypes.FindMessageByName(md.FullName())
	if err != nil {
		panic("message type " + string(md.FullName()) + " is not registered: " + err.Error())
	}
	return mt.New()
}

func (in *instance) unary(m methodRef, req proto.Message) (proto.Message, error) {
	reply := newMsg(m.md.Output()).Interface()
	err := in.conns[m.svc].conn.Invoke(context.Background(), m.full, req, reply)
	if err != nil {
		return nil, err
	}
	return reply, nil
}

func codeOf(err error) string {
	if err == nil {
		return "OK"
	}
	return status.Code(err).String()
}

func setMask(m protoreflect.Message, fd protoreflect.FieldDescriptor, paths []string) {
	fm := &fieldmaskpb.FieldMask{Paths: append([]string{}, paths...)}
	m.Set(fd, protoreflect.ValueOfMessage(fm.ProtoReflect()))
}

// getReq builds a Get request; mask == nil means no read mask.
func (tr *triple) getReq(name, key string, mask []string) proto.Message {
	m := newMsg(tr.get.md.Input())
	if tr.getName != nil {
		m.Set(tr.getName, protoreflect.ValueOfString(name))
	}
	if tr.getKey != nil {
		m.Set(tr.getKey, protoreflect.ValueOfString(key))
	}
	if mask != nil && tr.getMask != nil {
		setMask(m, tr.getMask, mask)
	}
	return m.Interface()
}

func (tr *triple) pullReq(name, key string, mask []string, updatesOnly bool) proto.Message {
	m := newMsg(tr.pull.md.Input())
	if tr.pullName != nil {
		m.Set(tr.pullName, protoreflect.ValueOfString(name))
	}
	if tr.pullKey != nil {
		m.Set(tr.pullKey, protoreflect.ValueOfString(key))
	}
	if mask != nil && tr.pullMask != nil {
		setMask(m, tr.pullMask, mask)
	}
	if updatesOnly && tr.pullOnly != nil {
		m.Set(tr.pullOnly, protoreflect.ValueOfBool(true))
	}
	return m.Interface()
}

// change is one element of a Pull response's changes list.
type change struct {
	name    string
	hasName bool
	value   proto.Message // nil when the change carries no value
}

// pullStream is an open Pull call whose reader goroutine always receives.
type pullStream struct {
	tr          *triple
	key         string
	mask        []string // nil = no read mask
	updatesOnly bool
	name        string
	cancel      context.CancelFunc

	mu      sync.Mutex
	changes []change
	ended   bool
	endErr  error
	seen    int // number of changes already judged (owned by the driver goroutine)

	// stallAfter > 0: the reader stops receiving after that many responses until resume is closed (a client that
	// stays connected but does not read)
	stallAfter int
	resume     chan struct{}
}

func (in *instance) openPull(tr *triple, key string, mask []string, updatesOnly bool) (*pullStream, error) {
	return in.openPullStalling(tr, key, mask, updatesOnly, 0)
}

func (in *instance) openPullStalling(tr *triple, key string, mask []string, updatesOnly bool, stallAfter int) (*pullStream, error) {
	ctx, cancel := context.WithCancel(context.Background())
	ps := &pullStream{tr: tr, key: key, mask: mask, updatesOnly: updatesOnly, name: in.name, cancel: cancel, stallAfter: stallAfter, resume: make(chan struct{})}
	cs, err := in.conns[tr.pull.svc].conn.NewStream(ctx, &grpc.StreamDesc{StreamName: string(tr.pull.md.Name()), ServerStreams: true}, tr.pull.full)
	if err != nil {
		cancel()
		return nil, err
	}
	if err := cs.SendMsg(tr.pullReq(in.name, key, mask, updatesOnly)); err != nil {
		cancel()
		return nil, err
	}
	if err := cs.CloseSend(); err != nil {
		cancel()
		return nil, err
	}
	go func() {
		for n := 0; ; n++ {
			if ps.stallAfter > 0 && n == ps.stallAfter {
				<-ps.resume
			}
			resp := newMsg(tr.pull.md.Output())
			err := cs.RecvMsg(resp.Interface())
			if err != nil {
				ps.mu.Lock()
				ps.ended, ps.endErr = true, err
				ps.mu.Unlock()
				return
			}
			l := resp.Get(tr.changes).List()
			ps.mu.Lock()
			for i := 0; i < l.Len(); i++ {
				cm := l.Get(i).Message()
				var c change
				if tr.chName != nil {
					c.hasName = true
					c.name = cm.Get(tr.chName).String()
				}
				if cm.Has(tr.chValue) {
					c.value = proto.Clone(cm.Get(tr.chValue).Message().Interface())
				}
				ps.changes = append(ps.changes, c)
			}
			ps.mu.Unlock()
		}
	}()
	return ps, nil
}

// fresh returns the changes received since the last call, and whether the stream has ended (with which error).
func (ps *pullStream) fresh() (cs []change, ended bool, err error) {
	ps.mu.Lock()
	defer ps.mu.Unlock()
	cs = append(cs, ps.changes[ps.seen:]...)
	ps.seen = len(ps.changes)
	return cs, ps.ended, ps.endErr
}

func isUnimplemented(err error) bool { return err != nil && status.Code(err) == codes.Unimplemented }
