package main

// Stalled-reader scenario: a Pull whose client takes the seed and then stops receiving (it stays connected). Up to
// six accepted large Updates follow one after the other. Each must return (at the next quiescent point it is not
// still in flight), an Update that returns OK must equal the next Get, and an Update that returns an error must have
// left Get unchanged. Afterwards the stalled stream is cancelled and a fresh reader plus one more Update confirm
// that the register is coherent. Decisions are taken on returned statuses, Get and goroutine state only.

import (
	"fmt"
	"time"

	"google.golang.org/protobuf/proto"

	"github.com/smart-core-os/sc-golang/internal/verif/vk"
)

const stalledUpdates = 6

func runStalled(r *vk.Run, t *target, rep int) {
	rng := r.CaseRand("stalled/"+t.e.id+"/"+t.tr.x, rep)
	name := deviceNames[rng.Intn(len(deviceNames))]
	h := &histCtx{r: r, t: t, rng: rng, hno: -1000 - rep, cur: map[string]proto.Message{}, curE: map[string]string{}}
	if !h.guard("stalled-reader") {
		return
	}
	defer r.Unguard()
	h.in = t.e.build(name, rng.Fork())
	key := h.keys()[0]
	for _, k := range h.keys()[1:] {
		h.getFull(k) // the later ordinary steps compare every key with its last known value
	}
	before, err, _ := h.getFull(key)
	h.logf("Get(key=%q) -> %s %s", key, codeOf(err), vk.JSON(before))
	if err != nil {
		return
	}
	ps, err := h.in.openPullStalling(t.tr, key, nil, false, 1)
	if err != nil {
		h.violate("stalled-reader/pull-failed", "Pull could not be started: "+err.Error())
		return
	}
	released := false
	release := func() {
		if !released {
			released = true
			ps.cancel()
			close(ps.resume)
		}
	}
	defer release()
	if _, ok := r.MustQuiesce("stalled-open"); !ok {
		return
	}
	cs, _, _ := ps.fresh()
	h.logf("Pull opened; the reader took %d change(s) and stopped receiving", len(cs))
	if len(cs) == 0 {
		r.Count("stalled/no-seed(not judged here)", 1)
	}
	r.Count("stalled/run", 1)
	okUpdates, tries := 0, 0
	for okUpdates < stalledUpdates && tries < 60 {
		tries++
		h.step++
		cur := h.cur[key]
		if cur == nil {
			break
		}
		v := proto.Clone(cur).ProtoReflect()
		var touched []string
		for i := 0; i < 2; i++ {
			if p := mutateLarge(rng, v, 0, "", t.hint, t.tr.valueKey); p != "" {
				touched = append(touched, p)
			}
		}
		u := &updSpec{key: key, value: v.Interface(), maskClass: "none", valueKind: "stalled", touched: dedupe(touched)}
		if t.e.sanitize != nil {
			t.e.sanitize(t.tr.x, u.value)
		}
		h.buildReq(u)
		var (
			resp proto.Message
			uerr error
		)
		tu := vk.Go(func() { resp, uerr = h.in.unary(t.tr.update, u.req) })
		if _, ok := r.MustQuiesce("stalled-update"); !ok {
			return
		}
		if !tu.Done() {
			// nothing else runs: the Update is held up by the reader that does not receive
			h.logf("Update(%s) has not returned at the quiescent point", vk.JSON(u.req))
			h.violate("stalled-reader/update-blocked", fmt.Sprintf("Update number %d after the reader stopped receiving is still in flight when the whole process is quiescent: a stream that is not being read holds up the writer\n%s",
				okUpdates+1, vk.DescribeGs(vk.LibraryGoroutines(vk.Goroutines(), nil))))
			if !waitTask(tu, 90*time.Second) {
				r.Inconclusive("stalled-reader-watchdog/"+t.e.id+"/"+t.tr.x, "a blocked Update did not return within 90 s")
				return
			}
			if _, ok := r.MustQuiesce("stalled-update-late"); !ok {
				return
			}
		}
		h.logf("Update(%s) -> %s %s", vk.JSON(u.req), codeOf(uerr), vk.JSON(resp))
		prev, prevCode := h.cur[key], h.curE[key]
		after, aerr, _ := h.getFull(key)
		h.logf("Get(key=%q) -> %s %s", key, codeOf(aerr), vk.JSON(after))
		r.Eval(1)
		r.Count("checked/stalled-reader-update", 1)
		r.Distinct(fmt.Sprintf("%s|stalled|%d|%s|%v", t.base, okUpdates, codeOf(uerr), changedTop(prev, after)))
		if uerr != nil {
			if !sameState(prev, prevCode, after, codeOf(aerr)) {
				h.violate("stalled-reader/update-failed-but-applied", fmt.Sprintf("Update number %d after the reader stopped receiving returned %v, yet Get changed from %s to %s %s", okUpdates+1, uerr, vk.JSON(prev), codeOf(aerr), vk.JSON(after)))
				break
			}
			r.Count("stalled/update-rejected-unchanged", 1)
			continue
		}
		if aerr != nil || !proto.Equal(resp, after) {
			h.violate("stalled-reader/update-vs-get", fmt.Sprintf("the successful Update returned %s, the next Get returned %s %s", vk.JSON(resp), codeOf(aerr), vk.JSON(after)))
		}
		if largeDiff(prev, after) {
			okUpdates++
		}
	}
	r.Count("stalled/accepted-large-updates", okUpdates)
	r.Count("stalled/accepted-large-updates/"+t.e.id+"/"+t.tr.x, okUpdates)
	// the client goes away; a fresh reader and one more Update must see a coherent register
	release()
	if _, ok := r.MustQuiesce("stalled-cancel"); !ok {
		return
	}
	h.step++
	h.openStreamWith(key, nil, false)
	h.step++
	h.randomUpdate("none")
	for _, s := range h.strs {
		s.cancel()
	}
	if r.WantSample("stalled-reader") {
		r.Sample("stalled-reader", map[string]any{"server": t.e.id, "triple": t.tr.x, "log": h.log})
	}
}

// waitTask waits for t with a wall-clock watchdog (its firing only ever yields an inconclusive result).
func waitTask(t *vk.Task, d time.Duration) bool {
	deadline := time.Now().Add(d)
	for !t.Done() {
		if time.Now().After(deadline) {
			return false
		}
		time.Sleep(20 * time.Millisecond)
	}
	return true
}
