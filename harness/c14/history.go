package main

// One history = a fresh server behind wrapper/router/wrapper, a short random sequence of Update / Get / Pull
// operations with 0-2 open streams, and the relations of the property checked after every step.

import (
	"fmt"
	"sort"
	"strings"

	"google.golang.org/protobuf/proto"
	"google.golang.org/protobuf/reflect/protoreflect"

	"github.com/smart-core-os/sc-golang/internal/verif/vk"
)

// target is one (server, triple) pair under test.
type target struct {
	e    *serverEntry
	tr   *triple
	mg   *maskGen
	base string // "C14/<server>/<X>"
	// corrupting holds the operation classes (guard classes) found to change the register although they are reads.
	// Like a class that crashed, such a class is not used again on this target in this process: every later
	// disagreement would be a consequence of the damaged server state, reported under whichever clause trips first.
	// The first history of every triple (run by every worker, with its directed part) is where this is found.
	corrupting map[string]bool
}

func (t *target) hint(p string) []string { return t.e.hints[t.tr.x+"."+p] }

var deviceNames = []string{"dev", "floor1/room 2/unit", "A", "xy-Zed", "Ünit#7"}

const ghostKey = "no-such-key"

type histCtx struct {
	r    *vk.Run
	t    *target
	in   *instance
	rng  *vk.Rand
	hno  int
	log  []string
	cur  map[string]proto.Message // last full Get per key (nil = Get failed)
	curE map[string]string        // status code of the last full Get per key
	strs []*pullStream
	step int
}

func (h *histCtx) logf(format string, a ...any) {
	s := fmt.Sprintf(format, a...)
	if len(s) > 700 {
		s = s[:700] + "…"
	}
	h.log = append(h.log, fmt.Sprintf("%d: %s", h.step, s))
}

func (h *histCtx) detail(msg string) string {
	lg := h.log
	if len(lg) > 14 {
		lg = append([]string{"…"}, lg[len(lg)-14:]...)
	}
	return msg + "\nserver " + h.t.e.id + " triple " + h.t.tr.x + " device name " + fmt.Sprintf("%q", h.in.name) + " history #" + fmt.Sprint(h.hno) + ":\n" + strings.Join(lg, "\n")
}

func (h *histCtx) replay() map[string]any {
	return map[string]any{"server": h.t.e.id, "triple": h.t.tr.x, "history": h.hno, "step": h.step}
}

func (h *histCtx) violate(clause, msg string) {
	h.r.Violation(h.t.base+"/"+clause, h.detail(msg), h.replay())
}

// guard wraps r.Guard: the key names what is reported if the process dies inside the call (a panic on a handler
// goroutine of the wrapper). In replay mode of another key the call runs unguarded.
func (h *histCtx) guard(class string) bool {
	if h.t.corrupting[class] {
		h.r.Count("skipped-after-read-corruption", 1)
		return false
	}
	key := h.t.base + "/crash/" + class
	if h.r.Only != "" && !strings.HasPrefix(key, h.r.Only) {
		return true
	}
	return h.r.Guard(key, map[string]any{"server": h.t.e.id, "triple": h.t.tr.x, "history": h.hno, "step": h.step, "op": class,
		"log": lastN(h.log, 6)})
}

func lastN(ss []string, n int) []string {
	if len(ss) > n {
		return ss[len(ss)-n:]
	}
	return ss
}

func (h *histCtx) keys() []string {
	if h.t.tr.getKey == nil {
		return []string{""}
	}
	return h.in.keys[h.t.tr.x]
}

// getFull performs an unmasked Get of key and records it as the current value.
func (h *histCtx) getFull(key string) (proto.Message, error, bool) {
	m, err := h.in.unary(h.t.tr.get, h.t.tr.getReq(h.in.name, key, nil))
	h.r.Count("rpc/get", 1)
	h.cur[key], h.curE[key] = m, codeOf(err)
	return m, err, true
}

func sameState(a proto.Message, ac string, b proto.Message, bc string) bool {
	if ac != bc {
		return false
	}
	if a == nil || b == nil {
		return a == nil && b == nil
	}
	return proto.Equal(a, b)
}

func project(m proto.Message, mask []string) proto.Message {
	if m == nil {
		return nil
	}
	if mask == nil {
		return proto.Clone(m)
	}
	return vk.RefProject(m, mask, false)
}

// runHistory executes history number hno of target t.
func runHistory(r *vk.Run, t *target, hno int, probe bool) {
	rng := r.CaseRand("hist/"+t.e.id+"/"+t.tr.x, hno)
	name := deviceNames[rng.Intn(len(deviceNames))]
	h := &histCtx{r: r, t: t, rng: rng, hno: hno, cur: map[string]proto.Message{}, curE: map[string]string{}}
	h.in = t.e.build(name, rng.Fork())
	defer func() {
		for _, s := range h.strs {
			s.cancel()
		}
		r.Unguard()
	}()
	// One Guard per step, written before the step's first RPC and left in place until the next one: a panic on a
	// handler goroutine kills the process and is attributed to the step's class (Guard costs a file write, so it is
	// not repeated for the Gets inside a step).
	if !h.guard("get") {
		return
	}
	for _, k := range h.keys() {
		m, err, ok := h.getFull(k)
		if !ok {
			return
		}
		h.logf("Get(key=%q) -> %s %s", k, codeOf(err), vk.JSON(m))
		if err != nil {
			h.violate("initial-get", "Get of an existing resource failed: "+err.Error())
			return
		}
	}
	r.Count("histories", 1)
	r.Count("histories/"+t.e.id+"/"+t.tr.x, 1)
	nOps := rng.Range(8, 16)
	if probe {
		// the first history of every triple runs each operation class once, early, so that a crash is found (and its
		// key skipped on restart) before the bulk of the work
		ops := []string{"open", "update:none", "update:valid", "getm", "open-masked", "update:empty", "update:invalid", "maskprobe"}
		h.hintScenario() // on the still untouched instance
		for _, op := range ops {
			h.step++
			h.doOp(op)
		}
		return
	}
	for i := 0; i < nOps; i++ {
		h.step++
		x := rng.Intn(100)
		switch {
		case x < 14 && len(h.strs) < 2:
			if rng.Bool() {
				h.doOp("open")
			} else {
				h.doOp("open-masked")
			}
		case x < 18 && len(h.strs) > 0:
			h.doOp("close")
		case x < 28:
			h.doOp("getm")
		case x < 36:
			h.doOp("maskprobe")
		default:
			h.doOp("update")
		}
	}
	if r.WantSample("history/" + t.e.id + "/" + t.tr.x) {
		r.Sample("history/"+t.e.id+"/"+t.tr.x, map[string]any{"server": t.e.id, "triple": t.tr.x, "name": name, "history": hno, "ops": h.log})
	}
}

func (h *histCtx) doOp(op string) {
	switch {
	case op == "open":
		h.openStream(false)
	case op == "open-masked":
		h.openStream(true)
	case op == "close":
		i := h.rng.Intn(len(h.strs))
		h.strs[i].cancel()
		h.logf("cancel stream %d", i)
		h.strs = append(h.strs[:i], h.strs[i+1:]...)
		h.r.Count("streams-cancelled", 1)
	case op == "getm":
		ks := h.keys()
		h.maskedGet(ks[h.rng.Intn(len(ks))])
	case op == "maskprobe":
		if checkUpdateMaskHonoured {
			h.maskProbe()
		} else {
			h.randomUpdate("")
		}
	case strings.HasPrefix(op, "update"):
		cls := ""
		if i := strings.IndexByte(op, ':'); i >= 0 {
			cls = op[i+1:]
		}
		h.randomUpdate(cls)
	}
}

// maskedGet checks Get(read_mask) == RefProject(full Get).
func (h *histCtx) maskedGet(key string) {
	h.maskedGetWith(key, h.t.mg.readMask(h.rng))
}

func (h *histCtx) maskedGetWith(key string, mask []string) {
	tr := h.t.tr
	if tr.getMask == nil {
		return
	}
	if !h.guard("get-masked") {
		return
	}
	full, err, ok := h.getFull(key)
	if !ok || err != nil {
		return
	}
	got, err := h.in.unary(tr.get, tr.getReq(h.in.name, key, mask))
	h.r.Count("rpc/get-masked", 1)
	h.logf("Get(key=%q, read_mask=%v) -> %s %s", key, mask, codeOf(err), vk.JSON(got))
	h.r.Eval(1)
	h.r.Count("checked/masked-get", 1)
	h.r.Distinct(fmt.Sprintf("%s|getm|%v|%s", h.t.base, mask, codeOf(err)))
	if err != nil {
		h.violate("masked-get/error", fmt.Sprintf("Get with the valid read mask %v failed with %v although the full Get succeeds", mask, err))
		return
	}
	want := vk.RefProject(full, mask, false)
	if !proto.Equal(got, want) {
		h.violate("masked-get", fmt.Sprintf("Get(read_mask=%v) = %s, projection of the full Get %s is %s", mask, vk.JSON(got), vk.JSON(full), vk.JSON(want)))
	}
	h.checkReadOnly(key, full, "get-masked", fmt.Sprintf("a Get with read mask %v", mask))
}

// checkReadOnly: "the full Get" must be the same before and after a read (masked Get, opening a Pull); a read that
// changes what Get returns leaves no register to be coherent with.
func (h *histCtx) checkReadOnly(key string, before proto.Message, op, what string) {
	beforeCode := h.curE[key]
	after, aerr, _ := h.getFull(key)
	h.r.Eval(1)
	h.r.Count("checked/read-leaves-get-unchanged", 1)
	if !sameState(before, beforeCode, after, codeOf(aerr)) {
		h.logf("Get(key=%q) -> %s %s", key, codeOf(aerr), vk.JSON(after))
		h.violate("read-changed-value/"+op, fmt.Sprintf("%s changed what the full Get returns, from %s to %s %s", what, vk.JSON(before), codeOf(aerr), vk.JSON(after)))
		if h.t.corrupting == nil {
			h.t.corrupting = map[string]bool{}
		}
		h.t.corrupting[map[string]string{"get-masked": "get-masked", "pull": "pull-open", "pull-masked": "pull-open-masked"}[op]] = true
	}
}

func (h *histCtx) openStream(masked bool) {
	tr := h.t.tr
	ks := h.keys()
	key := ks[h.rng.Intn(len(ks))]
	var mask []string
	if masked && tr.pullMask != nil {
		mask = h.t.mg.readMask(h.rng)
	}
	h.openStreamWith(key, mask, tr.pullOnly != nil && h.rng.Chance(1, 4))
}

func (h *histCtx) openStreamWith(key string, mask []string, updatesOnly bool) {
	tr := h.t.tr
	if mask != nil && tr.pullMask == nil {
		mask = nil
	}
	cls := "pull-open"
	sfx := ""
	if mask != nil {
		cls, sfx = "pull-open-masked", "/masked"
	}
	if !h.guard(cls) {
		return
	}
	full, gerr, ok := h.getFull(key)
	if !ok || gerr != nil {
		return
	}
	ps, err := h.in.openPull(tr, key, mask, updatesOnly)
	if err != nil {
		h.logf("Pull(key=%q, mask=%v, updates_only=%v) -> could not start: %v", key, mask, updatesOnly, err)
		h.violate("seed/missing"+sfx, "Pull could not be started: "+err.Error())
		return
	}
	_, qok := h.r.MustQuiesce("pull-open")
	h.r.Count("rpc/pull", 1)
	if !qok {
		ps.cancel()
		return
	}
	cs, ended, eerr := ps.fresh()
	h.logf("Pull(key=%q, read_mask=%v, updates_only=%v) -> %d initial changes%s", key, mask, updatesOnly, len(cs), describeChanges(cs))
	h.r.Distinct(fmt.Sprintf("%s|open|m=%v|uo=%v|n=%d", h.t.base, mask, updatesOnly, len(cs)))
	if ended {
		h.logf("stream ended: %v", eerr)
		h.r.Count("streams-ended-by-server", 1)
		if !updatesOnly {
			h.r.Eval(1)
			h.violate("seed/missing"+sfx, fmt.Sprintf("a new Pull ended with %v instead of starting with the current value", eerr))
		}
		ps.cancel()
		return
	}
	h.checkNames(ps, cs, sfx)
	if updatesOnly {
		// the statement leaves open what an updates-only Pull sends first; observed, not judged
		if len(cs) == 0 {
			h.r.Count("observed/updates-only-starts-empty", 1)
		} else {
			h.r.Count("observed/updates-only-starts-with-a-value", 1)
		}
	} else {
		h.r.Eval(1)
		h.r.Count("checked/seed", 1)
		if mask != nil {
			h.r.Count("checked/seed-masked", 1)
		}
		want := project(full, mask)
		switch {
		case len(cs) == 0:
			h.violate("seed/missing"+sfx, "a new Pull (not updates-only) delivered nothing at the next quiescent point; current value "+vk.JSON(full))
		case cs[0].value == nil || !proto.Equal(cs[0].value, want):
			h.violate("seed/value"+sfx, fmt.Sprintf("a new Pull starts with %s, the current value (projected by %v) is %s", vk.JSON(cs[0].value), mask, vk.JSON(want)))
		default:
			if len(cs) > 1 {
				h.r.Count("observed/extra-initial-changes", len(cs)-1)
			}
		}
	}
	h.strs = append(h.strs, ps)
	op := "pull"
	if mask != nil {
		op = "pull-masked"
	}
	h.checkReadOnly(key, full, op, fmt.Sprintf("opening a Pull with read mask %v", mask))
}

func describeChanges(cs []change) string {
	if len(cs) == 0 {
		return ""
	}
	var sb strings.Builder
	for i, c := range cs {
		if i >= 3 {
			sb.WriteString(" …")
			break
		}
		fmt.Fprintf(&sb, " [name=%q %s]", c.name, vk.JSON(c.value))
	}
	return ":" + sb.String()
}

func (h *histCtx) checkNames(ps *pullStream, cs []change, sfx string) {
	for _, c := range cs {
		if !c.hasName {
			continue
		}
		h.r.Eval(1)
		h.r.Count("checked/stream-name", 1)
		if c.name != ps.name {
			h.violate("stream-name"+sfx, fmt.Sprintf("a change on the stream carries name %q, the Pull request's name is %q", c.name, ps.name))
		}
	}
}

// updSpec is one generated Update request.
type updSpec struct {
	key       string
	value     proto.Message
	mask      []string
	maskClass string
	valueKind string
	touched   []string
	extras    string
	req       proto.Message
}

func (h *histCtx) buildReq(u *updSpec) {
	tr := h.t.tr
	m := newMsg(tr.update.md.Input())
	if tr.updName != nil {
		m.Set(tr.updName, protoreflect.ValueOfString(h.in.name))
	}
	m.Set(tr.updValue, protoreflect.ValueOfMessage(proto.Clone(u.value).ProtoReflect()))
	if u.mask != nil {
		setMask(m, tr.updMask, u.mask)
	}
	u.req = m.Interface()
}

// genUpdate builds a random Update: the value is the current value changed in 1-3 places by large steps (or a
// fresh random value), the mask is none / valid / empty / invalid, the other request fields (delta, relative,
// version, ...) are set now and then.
func (h *histCtx) genUpdate(forceMask string) *updSpec {
	tr, rng := h.t.tr, h.rng
	u := &updSpec{}
	ks := h.keys()
	u.key = ks[rng.Intn(len(ks))]
	if tr.getKey != nil && rng.Chance(1, 16) {
		u.key = ghostKey
	}
	cur := h.cur[u.key]
	var v protoreflect.Message
	if cur != nil && rng.Chance(1, 6) {
		// a small step: one populated float field nudged by less than any tolerance a model may have configured for
		// its subscribers; the write must be stored all the same (update-vs-get), streams may stay silent
		v = proto.Clone(cur).ProtoReflect()
		if p := nudgeFloat(rng, v, 0); p != "" {
			u.valueKind = "derived-small"
			u.touched = []string{p}
			h.r.Count("updates-by-a-small-float-step", 1)
		} else {
			v = nil
		}
	}
	if v != nil {
	} else if cur != nil && rng.Chance(4, 5) {
		u.valueKind = "derived"
		v = proto.Clone(cur).ProtoReflect()
		n := rng.Range(1, 3)
		for i := 0; i < n; i++ {
			if p := mutateLarge(rng, v, 0, "", h.t.hint, tr.valueKey); p != "" {
				u.touched = append(u.touched, p)
			}
		}
		u.touched = dedupe(u.touched)
	} else {
		u.valueKind = "fresh"
		v = vk.GenMessage(rng, newMsg(tr.t).Interface(), genOpts).ProtoReflect()
		applyHints(rng, v, "", h.t.hint, 0)
		v.Range(func(fd protoreflect.FieldDescriptor, _ protoreflect.Value) bool {
			u.touched = append(u.touched, string(fd.Name()))
			return true
		})
		sort.Strings(u.touched)
	}
	if tr.valueKey != nil {
		v.Set(tr.valueKey, protoreflect.ValueOfString(u.key))
	}
	u.value = v.Interface()
	if h.t.e.sanitize != nil {
		if label := h.t.e.sanitize(tr.x, u.value); label != "" {
			h.r.Count("excluded/"+label, 1)
		}
	}
	u.mask, u.maskClass = h.t.mg.updateMask(rng, u.touched)
	if forceMask != "" && forceMask != u.maskClass {
		for try := 0; try < 200 && u.maskClass != forceMask; try++ {
			u.mask, u.maskClass = h.t.mg.updateMask(rng, u.touched)
		}
	}
	h.buildReq(u)
	// other request fields
	req := u.req.ProtoReflect()
	for _, fd := range tr.updExtras {
		if !rng.Chance(1, 6) {
			continue
		}
		vk.SetRandomField(rng, req, fd, genOpts, 1)
		u.extras += string(fd.Name()) + ","
	}
	return u
}

// nudgeFloat changes one populated float/double field of m (or of a populated singular sub-message) by a tiny
// amount and returns the top-level field it lies in ("" when there is none).
func nudgeFloat(rng *vk.Rand, m protoreflect.Message, depth int) string {
	var cands []protoreflect.FieldDescriptor
	m.Range(func(fd protoreflect.FieldDescriptor, _ protoreflect.Value) bool {
		switch {
		case fd.IsList() || fd.IsMap():
		case fd.Kind() == protoreflect.FloatKind || fd.Kind() == protoreflect.DoubleKind:
			cands = append(cands, fd)
		case fd.Message() != nil && depth == 0:
			cands = append(cands, fd)
		}
		return true
	})
	sort.Slice(cands, func(i, j int) bool { return cands[i].Number() < cands[j].Number() })
	for _, k := range rng.Perm(len(cands)) {
		fd := cands[k]
		if fd.Message() != nil {
			if nudgeFloat(rng, m.Mutable(fd).Message(), depth+1) != "" {
				return string(fd.Name())
			}
			continue
		}
		x := m.Get(fd).Float()
		if x != x || x > 1e30 || x < -1e30 {
			continue
		}
		y := x + 0.004
		if rng.Bool() {
			y = x * (1 + 1e-5)
		}
		if fd.Kind() == protoreflect.FloatKind {
			y = float64(float32(y))
			if float32(y) == float32(x) {
				y = float64(float32(x) + 0.004)
			}
			m.Set(fd, protoreflect.ValueOfFloat32(float32(y)))
		} else {
			m.Set(fd, protoreflect.ValueOfFloat64(y))
		}
		if y == x {
			continue
		}
		return string(fd.Name())
	}
	return ""
}

// doUpdate sends u, then checks update-vs-get / rejected-changed and the open streams. It returns the response,
// the full Get before and after, and whether the step ran.
func (h *histCtx) doUpdate(u *updSpec) (resp proto.Message, err error, before, after proto.Message, ran bool) {
	tr := h.t.tr
	if !h.guard("update-mask-" + u.maskClass) {
		return nil, nil, nil, nil, false
	}
	// make sure the recorded current value is fresh (an earlier step may have been skipped)
	before, _, ok := h.getFull(u.key)
	if !ok {
		return nil, nil, nil, nil, false
	}
	beforeCode := h.curE[u.key]
	others := map[string]proto.Message{}
	for _, k := range h.keys() {
		if k != u.key {
			others[k] = h.cur[k]
		}
	}
	resp, err = h.in.unary(tr.update, u.req)
	h.r.Count("rpc/update", 1)
	if len(h.strs) > 0 {
		if _, qok := h.r.MustQuiesce("after-update"); !qok {
			return nil, nil, nil, nil, false
		}
	}
	h.logf("Update(%s) -> %s %s", vk.JSON(u.req), codeOf(err), vk.JSON(resp))
	after, aerr, ok := h.getFull(u.key)
	if !ok {
		return nil, nil, nil, nil, false
	}
	h.logf("Get(key=%q) -> %s %s", u.key, codeOf(aerr), vk.JSON(after))
	afterCode := codeOf(aerr)
	outcome := codeOf(err)
	h.r.Count("updates", 1)
	h.r.Count("updates/"+h.t.e.id+"/"+tr.x+"/"+map[bool]string{true: "ok", false: "rejected"}[err == nil], 1)
	h.r.Count("update-outcome/"+outcome, 1)
	h.r.Count("update-mask-class/"+u.maskClass, 1)
	var sdesc []string
	for _, s := range h.strs {
		sdesc = append(sdesc, fmt.Sprintf("%v/%v", s.mask != nil, s.updatesOnly))
	}
	h.r.Distinct(fmt.Sprintf("%s|upd|%s|%s|%v|%s|%s|chg=%v|str=%v|x=%s", h.t.base, u.valueKind, u.maskClass, u.mask, u.key == ghostKey, outcome, changedTop(before, after), sdesc, u.extras))
	h.r.Eval(1)
	if err == nil {
		h.r.Count("checked/update-vs-get", 1)
		if aerr != nil || !proto.Equal(resp, after) {
			h.violate("update-vs-get", fmt.Sprintf("the successful Update returned %s, the next Get returned %s %s", vk.JSON(resp), afterCode, vk.JSON(after)))
		}
		if !sameState(before, beforeCode, after, afterCode) {
			h.r.Count("updates-that-changed-the-value", 1)
		}
	} else {
		h.r.Count("checked/rejected-unchanged", 1)
		if !sameState(before, beforeCode, after, afterCode) {
			h.violate("rejected-changed", fmt.Sprintf("the Update was rejected with %v but Get changed from %s %s to %s %s", err, beforeCode, vk.JSON(before), afterCode, vk.JSON(after)))
		}
	}
	// an Update addressed to one key must leave the other keys alone whatever its outcome ("one coherent register" per key)
	for k, old := range others {
		now, _, ok := h.getFull(k)
		if !ok {
			continue
		}
		h.r.Eval(1)
		if (old == nil) != (now == nil) || (old != nil && !proto.Equal(old, now)) {
			h.violate("other-key-changed", fmt.Sprintf("an Update of key %q changed key %q from %s to %s", u.key, k, vk.JSON(old), vk.JSON(now)))
		}
	}
	h.checkStreams(u, resp, err, before, after)
	return resp, err, before, after, true
}

func (h *histCtx) checkStreams(u *updSpec, resp proto.Message, uerr error, before, after proto.Message) {
	keep := h.strs[:0]
	for _, s := range h.strs {
		sfx := ""
		if s.mask != nil {
			sfx = "/masked"
		}
		cs, ended, eerr := s.fresh()
		if len(cs) > 0 {
			h.logf("stream(key=%q, mask=%v, updates_only=%v) received%s", s.key, s.mask, s.updatesOnly, describeChanges(cs))
		}
		h.checkNames(s, cs, sfx)
		switch {
		case s.key != u.key:
			h.r.Eval(1)
			h.r.Count("checked/stream-of-other-key", 1)
			if len(cs) > 0 {
				h.violate("stream-value/other-key"+sfx, fmt.Sprintf("an Update of key %q produced %d change(s) on the stream of key %q:%s", u.key, len(cs), s.key, describeChanges(cs)))
			}
		case uerr == nil:
			want := project(resp, s.mask)
			required := largeDiff(project(before, s.mask), want)
			h.r.Eval(1)
			if required {
				h.r.Count("checked/stream-required", 1)
				h.r.Count("checked/stream-required/"+h.t.e.id+"/"+h.t.tr.x, 1)
				if s.mask != nil {
					h.r.Count("checked/stream-required-masked", 1)
				}
			} else {
				h.r.Count("checked/stream-optional", 1)
			}
			switch {
			case len(cs) == 0 && required:
				if ended {
					h.violate("stream-missing/stream-ended"+sfx, fmt.Sprintf("the stream ended by itself (%v) and did not deliver the Update's value %s", eerr, vk.JSON(want)))
				} else {
					h.violate("stream-missing"+sfx, fmt.Sprintf("the Update changed the value (as seen through read mask %v) from %s to %s by a large step, but at the next quiescent point the open stream whose reader keeps receiving has delivered nothing", s.mask, vk.JSON(project(before, s.mask)), vk.JSON(want)))
				}
			case len(cs) == 0:
				h.r.Count("observed/stream-silent-on-small-or-no-change", 1)
			default:
				last := cs[len(cs)-1]
				if last.value == nil || !proto.Equal(last.value, want) {
					h.violate("stream-value"+sfx, fmt.Sprintf("after the Update the stream's last change carries %s, the Update's response (projected by %v) is %s", vk.JSON(last.value), s.mask, vk.JSON(want)))
				}
				if len(cs) > 1 {
					h.r.Count("observed/intermediate-stream-changes", len(cs)-1)
				}
			}
		default:
			if len(cs) > 0 {
				h.r.Count("observed/stream-change-after-rejected-update", len(cs))
			}
		}
		if ended {
			h.logf("stream(key=%q) ended by itself: %v", s.key, eerr)
			h.r.Count("streams-ended-by-server", 1)
			s.cancel()
			continue
		}
		keep = append(keep, s)
	}
	h.strs = keep
}

func (h *histCtx) randomUpdate(forceMask string) {
	u := h.genUpdate(forceMask)
	_, _, _, after, ran := h.doUpdate(u)
	if !ran {
		return
	}
	if h.rng.Chance(1, 3) && after != nil {
		h.maskedGet(u.key)
	}
}

// maskProbe sends two Updates with the same single-path update mask [A]: the first changes A, the second repeats
// A's stored value; both also carry a new value for another top-level field B (different both times). If the stored
// B follows the request's B both times, the server ignores update_mask. Each shot is also an ordinary Update for
// the other clauses.
func (h *histCtx) maskProbe() {
	tr, rng := h.t.tr, h.rng
	ks := h.keys()
	key := ks[rng.Intn(len(ks))]
	cur := h.cur[key]
	if cur == nil {
		return
	}
	fds := tr.t.Fields()
	var cand []protoreflect.FieldDescriptor
	for i := 0; i < fds.Len(); i++ {
		fd := fds.Get(i)
		if tr.valueKey != nil && fd.Number() == tr.valueKey.Number() {
			continue
		}
		if fd.Message() != nil && fd.Message().FullName() == "google.protobuf.FieldMask" {
			continue
		}
		cand = append(cand, fd)
	}
	if len(cand) < 2 {
		return
	}
	p := rng.Perm(len(cand))
	a, b := cand[p[0]], cand[p[1]]
	if a.ContainingOneof() != nil && a.ContainingOneof() == b.ContainingOneof() {
		return // setting B would unset A
	}
	var bSeen []string
	followed := 0
	for shot := 0; shot < 2; shot++ {
		cur = h.cur[key]
		if cur == nil {
			return
		}
		v := proto.Clone(cur).ProtoReflect()
		if shot == 0 {
			setDifferent(rng, v, a, h.t.hint, nil)
		}
		// second shot: A keeps the value the first shot wrote, so with an honoured mask the write is a no-op and B
		// cannot move, whatever the model derives from A (a derived B that happens to equal the first request's B
		// is thereby told apart from an ignored mask)
		bval := setDifferent(rng, v, b, h.t.hint, bSeen)
		if bval == "" {
			return
		}
		bSeen = append(bSeen, bval)
		if tr.valueKey != nil {
			v.Set(tr.valueKey, protoreflect.ValueOfString(key))
		}
		u := &updSpec{key: key, value: v.Interface(), mask: []string{string(a.Name())}, maskClass: "valid", valueKind: "maskprobe", touched: []string{string(a.Name()), string(b.Name())}}
		if h.t.e.sanitize != nil {
			if label := h.t.e.sanitize(tr.x, u.value); label != "" {
				h.r.Count("excluded/"+label, 1)
				bval = canonOf(u.value.ProtoReflect(), b)
			}
		}
		h.buildReq(u)
		_, err, before, after, ran := h.doUpdate(u)
		if !ran || err != nil || after == nil {
			h.r.Count("maskprobe/abandoned", 1)
			return
		}
		if canonOf(before.ProtoReflect(), b) == bval {
			h.r.Count("maskprobe/abandoned", 1)
			return
		}
		if canonOf(after.ProtoReflect(), b) == bval {
			followed++
		}
	}
	h.r.Eval(1)
	h.r.Count("checked/update-mask", 1)
	h.r.Distinct(fmt.Sprintf("%s|maskprobe|%s|%s|%d", h.t.base, a.Name(), b.Name(), followed))
	if followed == 2 {
		// The statement of C14 says nothing about what update_mask selects (that is C05's subject, for the core
		// resources), so a server that does not honour it is recorded as an observation, not as a violation.
		h.r.Count("observed/update-mask-not-honoured/"+h.t.base, 1)
		if h.r.WantSample("update-mask-not-honoured/" + h.t.base) {
			h.r.Sample("update-mask-not-honoured/"+h.t.base, fmt.Sprintf("two Updates with update_mask [%s] also carried new values for field %s; the stored %s took the request's value both times", a.Name(), b.Name(), b.Name()))
		}
	}
}

func canonOf(m protoreflect.Message, fd protoreflect.FieldDescriptor) string {
	if !m.Has(fd) {
		return "<unset>"
	}
	tmp := m.New()
	tmp.Set(fd, m.Get(fd))
	b, _ := proto.MarshalOptions{Deterministic: true}.Marshal(tmp.Interface())
	return fmt.Sprintf("%x", b)
}

// setDifferent gives field fd of m a new populated value different from the present one (and from avoid) and
// returns its canonical form ("" if it could not).
func setDifferent(rng *vk.Rand, m protoreflect.Message, fd protoreflect.FieldDescriptor, hint hinter, avoid []string) string {
	old := canonOf(m, fd)
	for try := 0; try < 12; try++ {
		switch {
		case fd.IsList() || fd.IsMap() || fd.Message() != nil:
			m.Clear(fd)
			vk.SetRandomField(rng, m, fd, vk.GenOpts{Density: 60, MaxDepth: 3, MaxList: 2}, 0)
		default:
			m.Set(fd, largeScalar(rng, fd, m.Get(fd), hint(string(fd.Name()))))
		}
		c := canonOf(m, fd)
		if c == old || c == "<unset>" {
			continue
		}
		dup := false
		for _, a := range avoid {
			if a == c {
				dup = true
			}
		}
		if !dup {
			return c
		}
	}
	return ""
}

// hintScenario is a directed part of the first history: for every value the table lists as accepted by a business
// rule (a preset name, a mode id) the Update {field: value} is sent, then every mask path at or below the same
// top-level field is used for a masked Get and a masked Pull. Business rules that hydrate a value from the model's
// own configuration are where a server hands out (and a read filter then prunes) shared messages.
func (h *histCtx) hintScenario() {
	tr := h.t.tr
	var hps []string
	for k := range h.t.e.hints {
		if strings.HasPrefix(k, tr.x+".") {
			hps = append(hps, strings.TrimPrefix(k, tr.x+"."))
		}
	}
	sort.Strings(hps)
	ks := h.keys()
	for _, hp := range hps {
		top := hp
		if i := strings.IndexByte(hp, '.'); i >= 0 {
			top = hp[:i]
		}
		var paths []string
		for _, p := range h.t.mg.valid {
			if p == top || strings.HasPrefix(p, top+".") {
				paths = append(paths, p)
			}
		}
		for _, hv := range h.t.e.hints[tr.x+"."+hp] {
			h.step++
			v := newMsg(tr.t)
			if !setPath(v, hp, hv) {
				continue
			}
			if tr.valueKey != nil {
				v.Set(tr.valueKey, protoreflect.ValueOfString(ks[0]))
			}
			u := &updSpec{key: ks[0], value: v.Interface(), maskClass: "none", valueKind: "hint", touched: []string{top}}
			h.buildReq(u)
			if _, err, _, _, ran := h.doUpdate(u); !ran || err != nil {
				continue
			}
			for _, p := range paths {
				h.step++
				h.maskedGetWith(ks[0], []string{p})
				h.step++
				h.openStreamWith(ks[0], []string{p}, false)
				if n := len(h.strs); n > 0 {
					h.strs[n-1].cancel()
					h.strs = h.strs[:n-1]
				}
			}
		}
	}
}

// setPath sets the string field at a dotted path (through singular messages) of m.
func setPath(m protoreflect.Message, path, val string) bool {
	segs := strings.Split(path, ".")
	for i, sname := range segs {
		fd := m.Descriptor().Fields().ByName(protoreflect.Name(sname))
		if fd == nil {
			return false
		}
		if i == len(segs)-1 {
			if fd.Kind() != protoreflect.StringKind || fd.IsList() {
				return false
			}
			m.Set(fd, protoreflect.ValueOfString(val))
			return true
		}
		if fd.Message() == nil || fd.IsList() || fd.IsMap() {
			return false
		}
		m = m.Mutable(fd).Message()
	}
	return false
}
