package main

// Discovery of the server types that exist in the source tree: go/parser over pkg/trait/*/model_server.go,
// memory*.go and collection_server.go of the scratch copy the monitor was built from. A struct type that embeds an
// Unimplemented…Server is a server; one that has no entry in the static table is reported as uncovered.

import (
	"go/ast"
	"go/parser"
	"go/token"
	"os"
	"path/filepath"
	"regexp"
	"sort"
	"strings"
)

var unimplRe = regexp.MustCompile(`^Unimplemented\w+Server$`)

type foundServer struct {
	id   string // "<package dir>.<type>"
	file string // relative to pkg/trait
}

func sourceRoot() string {
	if s := os.Getenv("VERIF_SRC"); s != "" {
		return s
	}
	wd, _ := os.Getwd()
	return filepath.Join(wd, "src")
}

func wantedFile(base string) bool {
	if strings.HasSuffix(base, "_test.go") || strings.HasSuffix(base, ".pb.go") {
		return false
	}
	return base == "model_server.go" || base == "collection_server.go" || (strings.HasPrefix(base, "memory") && strings.HasSuffix(base, ".go"))
}

// scanTree returns the server types declared in the files the property quantifies over, plus (for the evidence)
// server types declared in other files of pkg/trait.
func scanTree(root string) (servers, elsewhere []foundServer, err error) {
	traitDir := filepath.Join(root, "pkg", "trait")
	ents, err := os.ReadDir(traitDir)
	if err != nil {
		return nil, nil, err
	}
	fset := token.NewFileSet()
	for _, d := range ents {
		if !d.IsDir() {
			continue
		}
		files, err := os.ReadDir(filepath.Join(traitDir, d.Name()))
		if err != nil {
			return nil, nil, err
		}
		for _, f := range files {
			base := f.Name()
			if f.IsDir() || !strings.HasSuffix(base, ".go") || strings.HasSuffix(base, "_test.go") || strings.HasSuffix(base, ".pb.go") {
				continue
			}
			af, err := parser.ParseFile(fset, filepath.Join(traitDir, d.Name(), base), nil, parser.SkipObjectResolution)
			if err != nil {
				return nil, nil, err
			}
			for _, decl := range af.Decls {
				gd, ok := decl.(*ast.GenDecl)
				if !ok || gd.Tok != token.TYPE {
					continue
				}
				for _, sp := range gd.Specs {
					ts := sp.(*ast.TypeSpec)
					st, ok := ts.Type.(*ast.StructType)
					if !ok || !embedsUnimplemented(st) {
						continue
					}
					fs := foundServer{id: d.Name() + "." + ts.Name.Name, file: d.Name() + "/" + base}
					if wantedFile(base) {
						servers = append(servers, fs)
					} else {
						elsewhere = append(elsewhere, fs)
					}
				}
			}
		}
	}
	sort.Slice(servers, func(i, j int) bool { return servers[i].id < servers[j].id })
	sort.Slice(elsewhere, func(i, j int) bool { return elsewhere[i].id < elsewhere[j].id })
	return servers, elsewhere, nil
}

func embedsUnimplemented(st *ast.StructType) bool {
	for _, f := range st.Fields.List {
		if len(f.Names) != 0 {
			continue
		}
		var name string
		switch t := f.Type.(type) {
		case *ast.Ident:
			name = t.Name
		case *ast.SelectorExpr:
			name = t.Sel.Name
		case *ast.StarExpr:
			switch u := t.X.(type) {
			case *ast.Ident:
				name = u.Name
			case *ast.SelectorExpr:
				name = u.Sel.Name
			}
		}
		if unimplRe.MatchString(name) {
			return true
		}
	}
	return false
}
