package main

// Generators: "large step" mutations of the current value (a non-float leaf changes, or a float changes by >= 1,
// far above every equivalence tolerance configured in pkg/trait: 0.01 absolute for fan speed and electric demand),
// fresh random values, update masks (none / valid / empty / invalid) and valid read masks; plus the reference
// decision "did the value change by a large step" used for the stream clause.

import (
	"math"
	"sort"
	"strings"

	"google.golang.org/protobuf/proto"
	"google.golang.org/protobuf/reflect/protoreflect"

	"github.com/smart-core-os/sc-golang/internal/verif/vk"
)

var genOpts = vk.GenOpts{Density: 40, MaxDepth: 2, MaxList: 2}

var stringPool = []string{"a", "b", "c", "xy", "Zed", "é", "q7"}

type hinter func(path string) []string

// mutateLarge changes m in one place by a large step and returns the top-level field it touched.
func mutateLarge(rng *vk.Rand, m protoreflect.Message, depth int, prefix string, hint hinter, skip protoreflect.FieldDescriptor) string {
	fds := m.Descriptor().Fields()
	if fds.Len() == 0 {
		return ""
	}
	var fd protoreflect.FieldDescriptor
	for try := 0; try < 8 && fd == nil; try++ {
		if rng.Bool() {
			var pop []protoreflect.FieldDescriptor
			m.Range(func(f protoreflect.FieldDescriptor, _ protoreflect.Value) bool { pop = append(pop, f); return true })
			if len(pop) > 0 {
				sort.Slice(pop, func(i, j int) bool { return pop[i].Number() < pop[j].Number() })
				fd = pop[rng.Intn(len(pop))]
			}
		}
		if fd == nil {
			fd = fds.Get(rng.Intn(fds.Len()))
		}
		if skip != nil && depth == 0 && fd.Number() == skip.Number() {
			fd = nil
		}
	}
	if fd == nil {
		return ""
	}
	path := prefix + string(fd.Name())
	top := path
	switch {
	case fd.IsMap():
		mp := m.Mutable(fd).Map()
		if mp.Len() > 0 && rng.Chance(1, 3) {
			var ks []protoreflect.MapKey
			mp.Range(func(k protoreflect.MapKey, _ protoreflect.Value) bool { ks = append(ks, k); return true })
			sort.Slice(ks, func(i, j int) bool { return ks[i].String() < ks[j].String() })
			mp.Clear(ks[rng.Intn(len(ks))])
			if mp.Len() == 0 {
				m.Clear(fd)
			}
			return top
		}
		if mp.Len() > 0 && rng.Bool() && fd.MapValue().Message() == nil {
			var ks []protoreflect.MapKey
			mp.Range(func(k protoreflect.MapKey, _ protoreflect.Value) bool { ks = append(ks, k); return true })
			sort.Slice(ks, func(i, j int) bool { return ks[i].String() < ks[j].String() })
			k := ks[rng.Intn(len(ks))]
			mp.Set(k, largeScalar(rng, fd.MapValue(), mp.Get(k), hint(path)))
			return top
		}
		before := mp.Len()
		vk.SetRandomField(rng, m, fd, genOpts, depth)
		if m.Get(fd).Map().Len() == before {
			// the random keys collided with existing ones: values were overwritten, still a change in most cases
		}
		return top
	case fd.IsList():
		l := m.Mutable(fd).List()
		switch {
		case l.Len() > 0 && rng.Chance(1, 3):
			l.Truncate(l.Len() - 1)
			if l.Len() == 0 {
				m.Clear(fd)
			}
		case l.Len() > 0 && fd.Message() != nil && depth < 2 && rng.Bool():
			mutateLarge(rng, l.Get(rng.Intn(l.Len())).Message(), depth+1, path+".", hint, nil)
		case l.Len() > 0 && fd.Message() == nil && rng.Bool():
			i := rng.Intn(l.Len())
			l.Set(i, largeScalar(rng, fd, l.Get(i), hint(path)))
		default:
			if fd.Message() != nil {
				e := l.NewElement()
				fillMsg(rng, e.Message(), depth+1)
				l.Append(e)
			} else {
				l.Append(largeScalar(rng, fd, fd.Default(), hint(path)))
			}
		}
		return top
	case fd.Message() != nil:
		switch fd.Message().FullName() {
		case "google.protobuf.Timestamp", "google.protobuf.Duration":
			sub := m.Mutable(fd).Message()
			sf := sub.Descriptor().Fields().ByName("seconds")
			step := int64(rng.Range(10, 1000))
			if rng.Chance(1, 4) {
				step = -step
			}
			s := sub.Get(sf).Int() + step
			if fd.Message().FullName() == "google.protobuf.Timestamp" && s < 0 {
				s = -s
			}
			sub.Set(sf, protoreflect.ValueOfInt64(s))
			sub.Clear(sub.Descriptor().Fields().ByName("nanos"))
			return top
		case "google.protobuf.FieldMask":
			return ""
		}
		if m.Has(fd) && rng.Chance(1, 6) {
			m.Clear(fd)
			return top
		}
		if m.Has(fd) && depth < 2 {
			if mutateLarge(rng, m.Mutable(fd).Message(), depth+1, path+".", hint, nil) == "" {
				return ""
			}
			return top
		}
		if depth >= 2 {
			return ""
		}
		sub := m.Mutable(fd).Message()
		fillMsg(rng, sub, depth+1)
		return top
	default:
		if m.Has(fd) && fd.HasPresence() && rng.Chance(1, 6) {
			m.Clear(fd)
			return top
		}
		m.Set(fd, largeScalar(rng, fd, m.Get(fd), hint(path)))
		return top
	}
}

func fillMsg(rng *vk.Rand, m protoreflect.Message, depth int) {
	fds := m.Descriptor().Fields()
	for i := 0; i < fds.Len(); i++ {
		if rng.Intn(100) < 50 {
			vk.SetRandomField(rng, m, fds.Get(i), genOpts, depth)
		}
	}
}

// largeScalar returns a value that differs from cur by a large step.
func largeScalar(rng *vk.Rand, fd protoreflect.FieldDescriptor, cur protoreflect.Value, hints []string) protoreflect.Value {
	step := func() int64 {
		s := int64(rng.Range(1, 9))
		if rng.Chance(1, 3) {
			s = -s
		}
		return s
	}
	switch fd.Kind() {
	case protoreflect.BoolKind:
		return protoreflect.ValueOfBool(!cur.Bool())
	case protoreflect.EnumKind:
		vs := fd.Enum().Values()
		if vs.Len() < 2 {
			return cur
		}
		for {
			v := vs.Get(rng.Intn(vs.Len())).Number()
			if v != cur.Enum() {
				return protoreflect.ValueOfEnum(v)
			}
		}
	case protoreflect.Int32Kind, protoreflect.Sint32Kind, protoreflect.Sfixed32Kind:
		return protoreflect.ValueOfInt32(int32(cur.Int() + step()))
	case protoreflect.Int64Kind, protoreflect.Sint64Kind, protoreflect.Sfixed64Kind:
		return protoreflect.ValueOfInt64(cur.Int() + step())
	case protoreflect.Uint32Kind, protoreflect.Fixed32Kind:
		v := int64(cur.Uint()) + step()
		if v < 0 {
			v = int64(cur.Uint()) + 3
		}
		return protoreflect.ValueOfUint32(uint32(v))
	case protoreflect.Uint64Kind, protoreflect.Fixed64Kind:
		v := int64(cur.Uint()) + step()
		if v < 0 {
			v = int64(cur.Uint()) + 3
		}
		return protoreflect.ValueOfUint64(uint64(v))
	case protoreflect.FloatKind, protoreflect.DoubleKind:
		c := cur.Float()
		if math.IsNaN(c) || math.IsInf(c, 0) {
			c = 0
		}
		v := math.Round(c) + float64(rng.Range(1, 25))*float64(1-2*rng.Intn(2))
		if rng.Chance(1, 5) {
			v += 0.5
		}
		if fd.Kind() == protoreflect.FloatKind {
			return protoreflect.ValueOfFloat32(float32(v))
		}
		return protoreflect.ValueOfFloat64(v)
	case protoreflect.StringKind:
		pool := stringPool
		if len(hints) > 0 && rng.Chance(4, 5) {
			pool = hints
		}
		for try := 0; try < 8; try++ {
			s := pool[rng.Intn(len(pool))]
			if s != cur.String() {
				return protoreflect.ValueOfString(s)
			}
		}
		return protoreflect.ValueOfString(cur.String() + "+")
	case protoreflect.BytesKind:
		return protoreflect.ValueOfBytes(append(append([]byte{}, cur.Bytes()...), byte('a'+rng.Intn(26))))
	}
	return cur
}

// applyHints rewrites hinted string fields of a freshly generated value so that business rules accept some of them.
func applyHints(rng *vk.Rand, m protoreflect.Message, prefix string, hint hinter, depth int) {
	m.Range(func(fd protoreflect.FieldDescriptor, v protoreflect.Value) bool {
		p := prefix + string(fd.Name())
		switch {
		case fd.IsList() || fd.IsMap():
		case fd.Message() != nil:
			if depth < 3 {
				applyHints(rng, v.Message(), p+".", hint, depth+1)
			}
		case fd.Kind() == protoreflect.StringKind:
			if hs := hint(p); len(hs) > 0 && rng.Chance(3, 4) {
				m.Set(fd, protoreflect.ValueOfString(hs[rng.Intn(len(hs))]))
			}
		}
		return true
	})
}

// largeDiff reports whether a and b (same type, nil = absent) differ in a non-float leaf, or in a float leaf by >= 1.
func largeDiff(a, b proto.Message) bool {
	switch {
	case a == nil && b == nil:
		return false
	case a == nil || b == nil:
		return true
	}
	return largeDiffMsg(a.ProtoReflect(), b.ProtoReflect())
}

func largeDiffMsg(a, b protoreflect.Message) bool {
	fds := a.Descriptor().Fields()
	for i := 0; i < fds.Len(); i++ {
		fd := fds.Get(i)
		ha, hb := a.Has(fd), b.Has(fd)
		if !ha && !hb {
			continue
		}
		isFloat := fd.Kind() == protoreflect.FloatKind || fd.Kind() == protoreflect.DoubleKind
		switch {
		case fd.IsMap():
			ma, mb := a.Get(fd).Map(), b.Get(fd).Map()
			if ma.Len() != mb.Len() {
				return true
			}
			diff := false
			ma.Range(func(k protoreflect.MapKey, va protoreflect.Value) bool {
				if !mb.Has(k) {
					diff = true
					return false
				}
				if largeDiffVal(fd.MapValue(), va, mb.Get(k)) {
					diff = true
					return false
				}
				return true
			})
			if diff {
				return true
			}
		case fd.IsList():
			la, lb := a.Get(fd).List(), b.Get(fd).List()
			if la.Len() != lb.Len() {
				return true
			}
			for j := 0; j < la.Len(); j++ {
				if largeDiffVal(fd, la.Get(j), lb.Get(j)) {
					return true
				}
			}
		case fd.Message() != nil:
			if ha != hb {
				return true
			}
			if largeDiffMsg(a.Get(fd).Message(), b.Get(fd).Message()) {
				return true
			}
		case isFloat:
			if largeDiffVal(fd, a.Get(fd), b.Get(fd)) {
				return true
			}
		default:
			if ha != hb && fd.HasPresence() {
				return true
			}
			if largeDiffVal(fd, a.Get(fd), b.Get(fd)) {
				return true
			}
		}
	}
	return false
}

func largeDiffVal(fd protoreflect.FieldDescriptor, x, y protoreflect.Value) bool {
	switch fd.Kind() {
	case protoreflect.MessageKind, protoreflect.GroupKind:
		return largeDiffMsg(x.Message(), y.Message())
	case protoreflect.FloatKind, protoreflect.DoubleKind:
		fx, fy := x.Float(), y.Float()
		if math.IsNaN(fx) || math.IsNaN(fy) || math.IsInf(fx, 0) || math.IsInf(fy, 0) {
			return false // never generated; not judged
		}
		return math.Abs(fx-fy) >= 1
	case protoreflect.BytesKind:
		return string(x.Bytes()) != string(y.Bytes())
	case protoreflect.BoolKind:
		return x.Bool() != y.Bool()
	case protoreflect.EnumKind:
		return x.Enum() != y.Enum()
	case protoreflect.StringKind:
		return x.String() != y.String()
	case protoreflect.Uint32Kind, protoreflect.Fixed32Kind, protoreflect.Uint64Kind, protoreflect.Fixed64Kind:
		return x.Uint() != y.Uint()
	default:
		return x.Int() != y.Int()
	}
}

// changedTop lists the top-level fields at which a and b differ (for descriptors of distinct cases).
func changedTop(a, b proto.Message) []string {
	if a == nil || b == nil {
		return []string{"<presence>"}
	}
	var out []string
	ra, rb := a.ProtoReflect(), b.ProtoReflect()
	fds := ra.Descriptor().Fields()
	for i := 0; i < fds.Len(); i++ {
		fd := fds.Get(i)
		ta, tb := ra.New(), rb.New()
		if ra.Has(fd) {
			ta.Set(fd, ra.Get(fd))
		}
		if rb.Has(fd) {
			tb.Set(fd, rb.Get(fd))
		}
		if !proto.Equal(ta.Interface(), tb.Interface()) {
			out = append(out, string(fd.Name()))
		}
	}
	return out
}

// maskGen holds the path pools of one message type.
type maskGen struct {
	valid   []string // valid FieldMask paths (through singular messages only), depth <= 2
	top     []string
	invalid []string
}

func newMaskGen(md protoreflect.MessageDescriptor) *maskGen {
	g := &maskGen{}
	for _, p := range vk.LeafPaths(md, 2) {
		if vk.ClassifyPath(md, p) == vk.PathValid {
			g.valid = append(g.valid, p)
		}
	}
	fds := md.Fields()
	for i := 0; i < fds.Len(); i++ {
		fd := fds.Get(i)
		g.top = append(g.top, string(fd.Name()))
		if fd.Message() == nil && !fd.IsList() && !fd.IsMap() {
			g.invalid = append(g.invalid, string(fd.Name())+".x") // continues through a scalar
		}
	}
	g.invalid = append(g.invalid, "no_such_field", g.top[0]+"_x")
	return g
}

// readMask returns 1-3 valid paths.
func (g *maskGen) readMask(rng *vk.Rand) []string {
	if rng.Chance(1, 10) {
		return []string{} // a mask that is present and names nothing: the projection is the empty message
	}
	n := rng.Range(1, 3)
	seen := map[string]bool{}
	var out []string
	for i := 0; i < n; i++ {
		var p string
		if rng.Chance(2, 3) {
			p = g.top[rng.Intn(len(g.top))]
		} else {
			p = g.valid[rng.Intn(len(g.valid))]
		}
		// a path and one of its descendants in the same mask: whether the child narrows the parent (pkg/masks) or is
		// redundant (field_mask.proto) is C06's question (keys C06/projection/*/parent+child), not asked again here
		overlap := false
		for q := range seen {
			if q == p || strings.HasPrefix(p, q+".") || strings.HasPrefix(q, p+".") {
				overlap = true
			}
		}
		if !overlap {
			seen[p] = true
			out = append(out, p)
		}
	}
	return out
}

// updateMask returns (paths, class); class none means "no mask" (paths nil).
func (g *maskGen) updateMask(rng *vk.Rand, touched []string) ([]string, string) {
	switch x := rng.Intn(100); {
	case x < 30:
		return nil, "none"
	case x < 78:
		// a valid mask that names what the generator changed (so that the update does something), or random paths
		if len(touched) > 0 && rng.Chance(2, 3) {
			out := append([]string{}, touched...)
			if rng.Chance(1, 4) {
				out = append(out, g.top[rng.Intn(len(g.top))])
			}
			return dedupe(out), "valid"
		}
		return g.readMask(rng), "valid"
	case x < 84:
		return []string{}, "empty"
	default:
		out := []string{g.invalid[rng.Intn(len(g.invalid))]}
		if rng.Bool() && len(touched) > 0 {
			out = append(out, touched[0])
		}
		return out, "invalid"
	}
}

func dedupe(ss []string) []string {
	seen := map[string]bool{}
	var out []string
	for _, s := range ss {
		if !seen[s] {
			seen[s] = true
			out = append(out, s)
		}
	}
	return out
}
