package main

// Static table of constructors: for every model server / memory device of pkg/trait how to build a fresh instance
// and stack it as WrapApi(router(WrapApi(server))). discover.go compares this table with what the source tree
// contains, so a server added to the tree without an entry here makes the run inconclusive instead of green.

import (
	"time"

	"google.golang.org/grpc"
	"google.golang.org/protobuf/proto"
	"google.golang.org/protobuf/reflect/protoreflect"
	"google.golang.org/protobuf/reflect/protoregistry"
	"google.golang.org/protobuf/types/known/timestamppb"

	"github.com/smart-core-os/sc-api/go/traits"
	"github.com/smart-core-os/sc-api/go/types"

	"github.com/smart-core-os/sc-golang/internal/verif/vk"
	"github.com/smart-core-os/sc-golang/pkg/resource"
	"github.com/smart-core-os/sc-golang/pkg/trait/accesspb"
	"github.com/smart-core-os/sc-golang/pkg/trait/airqualitysensorpb"
	"github.com/smart-core-os/sc-golang/pkg/trait/airtemperaturepb"
	"github.com/smart-core-os/sc-golang/pkg/trait/bookingpb"
	"github.com/smart-core-os/sc-golang/pkg/trait/countpb"
	"github.com/smart-core-os/sc-golang/pkg/trait/electricpb"
	"github.com/smart-core-os/sc-golang/pkg/trait/emergencypb"
	"github.com/smart-core-os/sc-golang/pkg/trait/energystoragepb"
	"github.com/smart-core-os/sc-golang/pkg/trait/enterleavesensorpb"
	"github.com/smart-core-os/sc-golang/pkg/trait/fanspeedpb"
	"github.com/smart-core-os/sc-golang/pkg/trait/hailpb"
	"github.com/smart-core-os/sc-golang/pkg/trait/lightpb"
	"github.com/smart-core-os/sc-golang/pkg/trait/metadatapb"
	"github.com/smart-core-os/sc-golang/pkg/trait/meterpb"
	"github.com/smart-core-os/sc-golang/pkg/trait/modepb"
	"github.com/smart-core-os/sc-golang/pkg/trait/occupancysensorpb"
	"github.com/smart-core-os/sc-golang/pkg/trait/onoffpb"
	"github.com/smart-core-os/sc-golang/pkg/trait/openclosepb"
	"github.com/smart-core-os/sc-golang/pkg/trait/parentpb"
	"github.com/smart-core-os/sc-golang/pkg/trait/presspb"
	"github.com/smart-core-os/sc-golang/pkg/trait/publicationpb"
	"github.com/smart-core-os/sc-golang/pkg/trait/speakerpb"
	"github.com/smart-core-os/sc-golang/pkg/trait/vendingpb"
	"github.com/smart-core-os/sc-golang/pkg/trait/wastepb"
)

// svcConn is one gRPC service of a stacked server: the outermost wrapper's connection and its descriptor.
type svcConn struct {
	conn grpc.ClientConnInterface
	sd   protoreflect.ServiceDescriptor
}

// instance is one freshly built server behind wrapper, router and wrapper.
type instance struct {
	name  string // the device name the inner wrapper is registered under in the router
	conns []svcConn
	// keys lists, per triple name, the keys of a keyed resource that exist in this instance (created by build).
	keys map[string][]string
}

// serverEntry describes one server type of pkg/trait.
type serverEntry struct {
	id   string // "<package>.<type>", e.g. "onoffpb.ModelServer"
	file string // the source file (relative to pkg/trait) that declares the type
	// build constructs a fresh instance registered under name. rng seeds id generation where the model supports it.
	build func(name string, rng *vk.Rand) *instance
	// live lists the triples (by X of Get<X>) the server is expected to serve; a listed triple that answers
	// Unimplemented or is not found in the descriptors makes the run inconclusive.
	live []string
	// hints gives, per "<X>.<field of T>", string values that make business rules accept a generated value.
	hints map[string][]string
	// sanitize may rewrite a generated Update value to keep it inside the checked domain; it returns a non-empty
	// exclusion label when it did (counted and explained in a note).
	sanitize func(x string, value proto.Message) string
	// note explains deliberate configuration / exclusions for the evidence.
	note string
}

type unwrapper interface {
	UnwrapService() (grpc.ClientConnInterface, grpc.ServiceDesc)
}

type adder interface {
	Add(name string, client any) any
}

// via builds outer = wrap(router) with router[name] = wrap(srv) and returns the outer wrapper's connection.
func via[S any, W unwrapper, R adder](name string, srv S, wrap func(S) W, rt R) svcConn {
	rt.Add(name, wrap(srv))
	outer := wrap(any(rt).(S))
	conn, desc := outer.UnwrapService()
	d, err := protoregistry.GlobalFiles.FindDescriptorByName(protoreflect.FullName(desc.ServiceName))
	if err != nil {
		panic("service " + desc.ServiceName + " is not in the global registry: " + err.Error())
	}
	return svcConn{conn: conn, sd: d.(protoreflect.ServiceDescriptor)}
}

func inst(name string, conns ...svcConn) *instance {
	return &instance{name: name, conns: conns, keys: map[string][]string{}}
}

var electricModeIDs = []string{"m-normal", "m-eco", "m-boost"}

var registry = []*serverEntry{
	{id: "accesspb.ModelServer", file: "accesspb/model_server.go", build: func(n string, _ *vk.Rand) *instance {
		return inst(n, via[traits.AccessApiServer](n, accesspb.NewModelServer(accesspb.NewModel()), accesspb.WrapApi, accesspb.NewApiRouter()))
	}},
	{id: "airqualitysensorpb.ModelServer", file: "airqualitysensorpb/model_server.go", build: func(n string, _ *vk.Rand) *instance {
		return inst(n, via[traits.AirQualitySensorApiServer](n, airqualitysensorpb.NewModelServer(airqualitysensorpb.NewModel()), airqualitysensorpb.WrapApi, airqualitysensorpb.NewApiRouter()))
	}},
	{id: "airtemperaturepb.ModelServer", file: "airtemperaturepb/model_server.go", live: []string{"AirTemperature"}, build: func(n string, _ *vk.Rand) *instance {
		return inst(n, via[traits.AirTemperatureApiServer](n, airtemperaturepb.NewModelServer(airtemperaturepb.NewModel()), airtemperaturepb.WrapApi, airtemperaturepb.NewApiRouter()))
	}},
	{id: "airtemperaturepb.MemoryDevice", file: "airtemperaturepb/memory.go", live: []string{"AirTemperature"}, build: func(n string, _ *vk.Rand) *instance {
		return inst(n, via[traits.AirTemperatureApiServer](n, airtemperaturepb.NewMemoryDevice(), airtemperaturepb.WrapApi, airtemperaturepb.NewApiRouter()))
	}},
	{id: "bookingpb.ModelServer", file: "bookingpb/model_server.go", build: func(n string, _ *vk.Rand) *instance {
		return inst(n, via[traits.BookingApiServer](n, bookingpb.NewModelServer(bookingpb.NewModel()), bookingpb.WrapApi, bookingpb.NewApiRouter()))
	}},
	{id: "countpb.MemoryDevice", file: "countpb/memory.go", live: []string{"Count"}, build: func(n string, _ *vk.Rand) *instance {
		return inst(n, via[traits.CountApiServer](n, countpb.NewMemoryDevice(), countpb.WrapApi, countpb.NewApiRouter()))
	}},
	{id: "electricpb.ModelServer", file: "electricpb/model_server.go", live: []string{"Demand", "ActiveMode"},
		hints: map[string][]string{"ActiveMode.id": electricModeIDs},
		note:  "electricpb.ModelServer serves ElectricApi and MemorySettingsApi (UpdateDemand); both are stacked from the same server object; three modes (one normal) are added first so that UpdateActiveMode has ids to select",
		build: func(n string, _ *vk.Rand) *instance {
			m := electricpb.NewModel()
			for i, id := range electricModeIDs {
				if err := m.AddMode(&traits.ElectricMode{Id: id, Title: "mode " + id, Normal: i == 0, Description: "d" + id,
					Segments: []*traits.ElectricMode_Segment{{Magnitude: float32(i + 1)}}}); err != nil {
					panic(err)
				}
			}
			s := electricpb.NewModelServer(m)
			return inst(n,
				via[traits.ElectricApiServer](n, s, electricpb.WrapApi, electricpb.NewApiRouter()),
				via[electricpb.MemorySettingsApiServer](n, s, electricpb.WrapMemorySettingsApi, electricpb.NewMemorySettingsApiRouter()))
		}},
	{id: "emergencypb.MemoryDevice", file: "emergencypb/memory.go", live: []string{"Emergency"}, build: func(n string, _ *vk.Rand) *instance {
		return inst(n, via[traits.EmergencyApiServer](n, emergencypb.NewMemoryDevice(), emergencypb.WrapApi, emergencypb.NewApiRouter()))
	}},
	{id: "energystoragepb.ModelServer", file: "energystoragepb/model_server.go", build: func(n string, _ *vk.Rand) *instance {
		return inst(n, via[traits.EnergyStorageApiServer](n, energystoragepb.NewModelServer(energystoragepb.NewModel()), energystoragepb.WrapApi, energystoragepb.NewApiRouter()))
	}},
	{id: "enterleavesensorpb.ModelServer", file: "enterleavesensorpb/model_server.go", build: func(n string, _ *vk.Rand) *instance {
		return inst(n, via[traits.EnterLeaveSensorApiServer](n, enterleavesensorpb.NewModelServer(enterleavesensorpb.NewModel()), enterleavesensorpb.WrapApi, enterleavesensorpb.NewApiRouter()))
	}},
	{id: "fanspeedpb.ModelServer", file: "fanspeedpb/model_server.go", live: []string{"FanSpeed"},
		hints: map[string][]string{"FanSpeed.preset": {"off", "low", "med", "high", "full"}},
		build: func(n string, _ *vk.Rand) *instance {
			return inst(n, via[traits.FanSpeedApiServer](n, fanspeedpb.NewModelServer(fanspeedpb.NewModel()), fanspeedpb.WrapApi, fanspeedpb.NewApiRouter()))
		}},
	{id: "hailpb.ModelServer", file: "hailpb/model_server.go", live: []string{"Hail"},
		note: "hailpb.Model is built with WithKeepAlive(-1): the garbage collection of arrived hails is driven by the wall clock; two hails are created first",
		build: func(n string, rng *vk.Rand) *instance {
			m := hailpb.NewModel(hailpb.WithKeepAlive(-1*time.Second), resource.WithRNG(rng.Fork()))
			in := inst(n, via[traits.HailApiServer](n, hailpb.NewModelServer(m), hailpb.WrapApi, hailpb.NewApiRouter()))
			for i := 0; i < 2; i++ {
				h, err := m.CreateHail(&traits.Hail{State: traits.Hail_CALLED, Origin: &traits.Hail_Location{Name: []string{"lobby", "roof"}[i]}})
				if err != nil {
					panic(err)
				}
				in.keys["Hail"] = append(in.keys["Hail"], h.Id)
			}
			return in
		}},
	{id: "lightpb.ModelServer", file: "lightpb/model_server.go", live: []string{"Brightness"},
		hints: map[string][]string{"Brightness.preset.name": {"dim", "bright"}},
		build: func(n string, _ *vk.Rand) *instance {
			m := lightpb.NewModel(lightpb.WithPreset(20, &traits.LightPreset{Name: "dim", Title: "Dim"}), lightpb.WithPreset(90, &traits.LightPreset{Name: "bright", Title: "Bright"}))
			return inst(n, via[traits.LightApiServer](n, lightpb.NewModelServer(m), lightpb.WrapApi, lightpb.NewApiRouter()))
		}},
	{id: "lightpb.MemoryDevice", file: "lightpb/memory.go", live: []string{"Brightness"},
		note: "lightpb.MemoryDevice is only driven with a zero tween duration: a positive brightness_tween.total_duration starts a ticker goroutine that writes progress by the wall clock (deliberately excluded; the generator clears such durations and counts them)",
		sanitize: func(_ string, v proto.Message) string {
			b := v.(*traits.Brightness)
			if b.GetBrightnessTween().GetTotalDuration().AsDuration() > 0 {
				b.BrightnessTween.TotalDuration = nil
				return "lightpb.MemoryDevice/nonzero-tween-duration-cleared"
			}
			return ""
		},
		build: func(n string, _ *vk.Rand) *instance {
			return inst(n, via[traits.LightApiServer](n, lightpb.NewMemoryDevice(), lightpb.WrapApi, lightpb.NewApiRouter()))
		}},
	{id: "metadatapb.ModelServer", file: "metadatapb/model_server.go", build: func(n string, _ *vk.Rand) *instance {
		return inst(n, via[traits.MetadataApiServer](n, metadatapb.NewModelServer(metadatapb.NewModel()), metadatapb.WrapApi, metadatapb.NewApiRouter()))
	}},
	{id: "metadatapb.CollectionServer", file: "metadatapb/collection_server.go", build: func(n string, _ *vk.Rand) *instance {
		return inst(n, via[traits.MetadataApiServer](n, metadatapb.NewCollectionServer(metadatapb.NewCollection()), metadatapb.WrapApi, metadatapb.NewApiRouter()))
	}},
	{id: "meterpb.ModelServer", file: "meterpb/model_server.go", build: func(n string, _ *vk.Rand) *instance {
		return inst(n, via[traits.MeterApiServer](n, meterpb.NewModelServer(meterpb.NewModel()), meterpb.WrapApi, meterpb.NewApiRouter()))
	}},
	{id: "modepb.ModelServer", file: "modepb/model_server.go", live: []string{"ModeValues"}, build: func(n string, _ *vk.Rand) *instance {
		return inst(n, via[traits.ModeApiServer](n, modepb.NewModelServer(modepb.NewModel()), modepb.WrapApi, modepb.NewApiRouter()))
	}},
	{id: "occupancysensorpb.ModelServer", file: "occupancysensorpb/model_server.go", build: func(n string, _ *vk.Rand) *instance {
		return inst(n, via[traits.OccupancySensorApiServer](n, occupancysensorpb.NewModelServer(occupancysensorpb.NewModel()), occupancysensorpb.WrapApi, occupancysensorpb.NewApiRouter()))
	}},
	{id: "onoffpb.ModelServer", file: "onoffpb/model_server.go", live: []string{"OnOff"}, build: func(n string, _ *vk.Rand) *instance {
		return inst(n, via[traits.OnOffApiServer](n, onoffpb.NewModelServer(onoffpb.NewModel()), onoffpb.WrapApi, onoffpb.NewApiRouter()))
	}},
	{id: "openclosepb.ModelServer", file: "openclosepb/model_server.go", live: []string{"Positions"},
		hints: map[string][]string{"Positions.preset.name": {"closed", "ajar"}},
		build: func(n string, _ *vk.Rand) *instance {
			m := openclosepb.NewModel(
				openclosepb.WithInitialPositions(&traits.OpenClosePosition{Direction: traits.OpenClosePosition_UP, OpenPercent: 40}),
				openclosepb.WithPreset(&traits.OpenClosePositions_Preset{Name: "closed", Title: "Closed"}, &traits.OpenClosePosition{Direction: traits.OpenClosePosition_UP, OpenPercent: 0}),
				openclosepb.WithPreset(&traits.OpenClosePositions_Preset{Name: "ajar", Title: "Ajar"}, &traits.OpenClosePosition{Direction: traits.OpenClosePosition_UP, OpenPercent: 15}),
			)
			return inst(n, via[traits.OpenCloseApiServer](n, openclosepb.NewModelServer(m), openclosepb.WrapApi, openclosepb.NewApiRouter()))
		}},
	{id: "parentpb.ModelServer", file: "parentpb/model_server.go", build: func(n string, _ *vk.Rand) *instance {
		return inst(n, via[traits.ParentApiServer](n, parentpb.NewModelServer(parentpb.NewModel()), parentpb.WrapApi, parentpb.NewApiRouter()))
	}},
	{id: "presspb.ModelServer", file: "presspb/model_server.go",
		note: "presspb.ModelServer declares GetButtonState/UpdateButtonState/PullButtonState, which are not methods of traits.PressApiServer (GetPressedState/UpdatePressedState/PullPressedState): every RPC of the PressedState triple is answered by the embedded Unimplemented server, so the server exposes no resource and is outside the property's domain (reported to the coordinator, not judged)",
		build: func(n string, _ *vk.Rand) *instance {
			return inst(n, via[traits.PressApiServer](n, presspb.NewModelServer(presspb.NewModel(traits.PressedState_UNPRESSED)), presspb.WrapApi, presspb.NewApiRouter()))
		}},
	{id: "publicationpb.ModelServer", file: "publicationpb/model_server.go", live: []string{"Publication"},
		note: "two publications are created first",
		build: func(n string, rng *vk.Rand) *instance {
			m := publicationpb.NewModel(resource.WithRNG(rng.Fork()))
			in := inst(n, via[traits.PublicationApiServer](n, publicationpb.NewModelServer(m), publicationpb.WrapApi, publicationpb.NewApiRouter()))
			for _, id := range []string{"pub-1", "pub-2"} {
				p, err := m.CreatePublication(&traits.Publication{Id: id, Body: []byte("body of " + id), MediaType: "text/plain",
					Audience: &traits.Publication_Audience{Name: "all"}, PublishTime: timestamppb.New(time.Unix(1000, 0))})
				if err != nil {
					panic(err)
				}
				in.keys["Publication"] = append(in.keys["Publication"], p.Id)
			}
			return in
		}},
	{id: "speakerpb.MemoryDevice", file: "speakerpb/memory.go", live: []string{"Volume"}, build: func(n string, _ *vk.Rand) *instance {
		return inst(n, via[traits.SpeakerApiServer](n, speakerpb.NewMemoryDevice(&types.AudioLevel{Gain: 10}), speakerpb.WrapApi, speakerpb.NewApiRouter()))
	}},
	{id: "vendingpb.ModelServer", file: "vendingpb/model_server.go", live: []string{"Stock"},
		note: "two stock records are created first",
		build: func(n string, rng *vk.Rand) *instance {
			m := vendingpb.NewModel(resource.WithRNG(rng.Fork()))
			in := inst(n, via[traits.VendingApiServer](n, vendingpb.NewModelServer(m), vendingpb.WrapApi, vendingpb.NewApiRouter()))
			for _, c := range []string{"cola", "water"} {
				s, err := m.CreateStock(&traits.Consumable_Stock{Consumable: c,
					Remaining: &traits.Consumable_Quantity{Amount: 10, Unit: traits.Consumable_NO_UNIT},
					Used:      &traits.Consumable_Quantity{Amount: 2, Unit: traits.Consumable_NO_UNIT}})
				if err != nil {
					panic(err)
				}
				in.keys["Stock"] = append(in.keys["Stock"], s.Consumable)
			}
			return in
		}},
	{id: "wastepb.ModelServer", file: "wastepb/model_server.go", build: func(n string, _ *vk.Rand) *instance {
		return inst(n, via[traits.WasteApiServer](n, wastepb.NewModelServer(wastepb.NewModel()), wastepb.WrapApi, wastepb.NewApiRouter()))
	}},
}
