package main

// Discovery of Get/Update/Pull triples from the service descriptors of a stacked server, by reflection only:
//   Get<X>    unary, returns T
//   Update<X> unary, request has a singular field of type T and an `update_mask` FieldMask, returns T
//   Pull<X>   server streaming, response has repeated `changes` whose element has exactly one singular field of type T
// Names decide between several candidates of the same T (Update<X>, Pull<X> or Pull<X>s).

import (
	"sort"
	"strings"

	"google.golang.org/protobuf/reflect/protoreflect"
)

type methodRef struct {
	svc  int // index into instance.conns
	md   protoreflect.MethodDescriptor
	full string // "/<service>/<method>"
}

type triple struct {
	x string // the X of Get<X>
	t protoreflect.MessageDescriptor

	get, update, pull methodRef

	getName, getMask, getKey              protoreflect.FieldDescriptor // in the Get request (mask/key may be nil)
	updName, updValue, updMask            protoreflect.FieldDescriptor // in the Update request
	pullName, pullMask, pullKey, pullOnly protoreflect.FieldDescriptor // in the Pull request
	changes                               protoreflect.FieldDescriptor // in the Pull response
	chName, chValue                       protoreflect.FieldDescriptor // in the change message (chName may be nil)
	valueKey                              protoreflect.FieldDescriptor // in T: the field that carries the key (nil if not keyed)
	updExtras                             []protoreflect.FieldDescriptor
}

// pairOnly describes a Get with a Pull but without an Update RPC: outside the property's domain.
type discovery struct {
	triples   []*triple
	pairs     []string // "Get<X>+Pull<X>" without Update
	ambiguous []string
}

func isFieldMask(fd protoreflect.FieldDescriptor) bool {
	return fd != nil && fd.Message() != nil && fd.Message().FullName() == "google.protobuf.FieldMask" && !fd.IsList()
}

func singularOfType(md protoreflect.MessageDescriptor, t protoreflect.MessageDescriptor) []protoreflect.FieldDescriptor {
	var out []protoreflect.FieldDescriptor
	fds := md.Fields()
	for i := 0; i < fds.Len(); i++ {
		fd := fds.Get(i)
		if fd.Message() != nil && !fd.IsList() && !fd.IsMap() && fd.Message().FullName() == t.FullName() {
			out = append(out, fd)
		}
	}
	return out
}

func stringField(md protoreflect.MessageDescriptor, name string) protoreflect.FieldDescriptor {
	fd := md.Fields().ByName(protoreflect.Name(name))
	if fd != nil && fd.Kind() == protoreflect.StringKind && !fd.IsList() {
		return fd
	}
	return nil
}

// keyFieldOf finds the string field of a request (other than name) that also exists as a string field in T.
func keyFieldOf(req, t protoreflect.MessageDescriptor) protoreflect.FieldDescriptor {
	var cands []protoreflect.FieldDescriptor
	fds := req.Fields()
	for i := 0; i < fds.Len(); i++ {
		fd := fds.Get(i)
		if fd.Kind() != protoreflect.StringKind || fd.IsList() || fd.Name() == "name" {
			continue
		}
		if stringField(t, string(fd.Name())) != nil {
			cands = append(cands, fd)
		}
	}
	for _, c := range cands {
		if c.Name() == "id" {
			return c
		}
	}
	if len(cands) > 0 {
		return cands[0]
	}
	return nil
}

func discoverTriples(in *instance) discovery {
	var d discovery
	var all []methodRef
	for si, sc := range in.conns {
		ms := sc.sd.Methods()
		for i := 0; i < ms.Len(); i++ {
			md := ms.Get(i)
			all = append(all, methodRef{svc: si, md: md, full: "/" + string(sc.sd.FullName()) + "/" + string(md.Name())})
		}
	}
	for _, g := range all {
		name := string(g.md.Name())
		if !strings.HasPrefix(name, "Get") || g.md.IsStreamingServer() || g.md.IsStreamingClient() {
			continue
		}
		x := strings.TrimPrefix(name, "Get")
		t := g.md.Output()
		// Update candidates
		var ups []methodRef
		for _, u := range all {
			if !strings.HasPrefix(string(u.md.Name()), "Update") || u.md.IsStreamingServer() || u.md.IsStreamingClient() {
				continue
			}
			if u.md.Output().FullName() != t.FullName() {
				continue
			}
			if len(singularOfType(u.md.Input(), t)) != 1 || !isFieldMask(u.md.Input().Fields().ByName("update_mask")) {
				continue
			}
			ups = append(ups, u)
		}
		var pulls []methodRef
		for _, p := range all {
			if !strings.HasPrefix(string(p.md.Name()), "Pull") || !p.md.IsStreamingServer() || p.md.IsStreamingClient() {
				continue
			}
			ch := p.md.Output().Fields().ByName("changes")
			if ch == nil || !ch.IsList() || ch.Message() == nil {
				continue
			}
			if len(singularOfType(ch.Message(), t)) != 1 {
				continue
			}
			pulls = append(pulls, p)
		}
		pick := func(cands []methodRef, names ...string) (methodRef, bool, bool) {
			for _, n := range names {
				for _, c := range cands {
					if string(c.md.Name()) == n {
						return c, true, false
					}
				}
			}
			if len(cands) == 1 {
				return cands[0], true, false
			}
			return methodRef{}, false, len(cands) > 1
		}
		up, okU, ambU := pick(ups, "Update"+x)
		pl, okP, ambP := pick(pulls, "Pull"+x, "Pull"+x+"s")
		if ambU || ambP {
			d.ambiguous = append(d.ambiguous, name)
			continue
		}
		if !okU {
			if okP {
				d.pairs = append(d.pairs, name+"+"+string(pl.md.Name()))
			}
			continue
		}
		if !okP {
			continue
		}
		tr := &triple{x: x, t: t, get: g, update: up, pull: pl}
		gi, ui, pi := g.md.Input(), up.md.Input(), pl.md.Input()
		tr.getName = stringField(gi, "name")
		if fd := gi.Fields().ByName("read_mask"); isFieldMask(fd) {
			tr.getMask = fd
		}
		tr.getKey = keyFieldOf(gi, t)
		tr.updName = stringField(ui, "name")
		tr.updValue = singularOfType(ui, t)[0]
		tr.updMask = ui.Fields().ByName("update_mask")
		tr.pullName = stringField(pi, "name")
		if fd := pi.Fields().ByName("read_mask"); isFieldMask(fd) {
			tr.pullMask = fd
		}
		if fd := pi.Fields().ByName("updates_only"); fd != nil && fd.Kind() == protoreflect.BoolKind {
			tr.pullOnly = fd
		}
		tr.pullKey = keyFieldOf(pi, t)
		tr.changes = pl.md.Output().Fields().ByName("changes")
		tr.chValue = singularOfType(tr.changes.Message(), t)[0]
		tr.chName = stringField(tr.changes.Message(), "name")
		if tr.getKey != nil {
			tr.valueKey = stringField(t, string(tr.getKey.Name()))
		}
		ufs := ui.Fields()
		for i := 0; i < ufs.Len(); i++ {
			fd := ufs.Get(i)
			if fd == tr.updName || fd == tr.updValue || fd == tr.updMask {
				continue
			}
			tr.updExtras = append(tr.updExtras, fd)
		}
		d.triples = append(d.triples, tr)
	}
	sort.Slice(d.triples, func(i, j int) bool { return d.triples[i].x < d.triples[j].x })
	sort.Strings(d.pairs)
	return d
}
