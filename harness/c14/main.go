// Monitor for C14: trait servers give read-your-writes through the full stack.
//
// Every model server / memory device of pkg/trait is stacked as WrapApi(router(WrapApi(server))). Its Get/Update/Pull
// triples are found from the service descriptors by reflection, then short random histories of Updates (valid,
// rejected by business rules, invalid masks), masked Gets and 0-2 open Pull streams are run against fresh instances
// and the relations of the property are checked after every step; "appears on every open stream" is decided at a
// quiescent point (vk.Quiesce) with reader goroutines that always receive.
package main

import (
	"fmt"
	"sort"
	"strings"

	"google.golang.org/protobuf/proto"
	"google.golang.org/protobuf/reflect/protoreflect"

	"github.com/smart-core-os/sc-golang/internal/verif/vk"
)

func main() { vk.Main("C14", run) }

// checkUpdateMaskHonoured enables the clause update-mask-ignored (see maskProbe). The statement of C14 does not spell
// it out; it follows from the property's mechanism anchor ("servers translate read_mask/update_mask/updates_only
// into resource options") and from the design's self-test "drop WithUpdateMask in one server", which no other
// clause can observe. It has its own key so that it can be classified separately.
const checkUpdateMaskHonoured = true

func run(r *vk.Run) {
	r.Describe("cases = (model server / memory device of pkg/trait, found by go/parser in the scratch tree and matched with a compiled-in constructor table) x "+
		"(Get<X>/Update<X>/Pull<X> triple found by reflection over its service descriptors) x history number. "+
		"A history builds a fresh server as WrapApi(router(WrapApi(server))) under one of 5 device names, creates the keys of keyed resources (hail, stock, publication: 2 keys; electric: 3 modes), "+
		"then runs 8-16 steps drawn from: Update (value = current value changed in 1-3 places by a large step - a non-float leaf, or a float by >= 1 - or a fresh random value; "+
		"update_mask none / valid / empty / invalid (unknown field, continuation through a scalar); delta/relative/version and other request fields set now and then; 1 in 16 addressed to a non-existent key), "+
		"masked Get (1-3 valid, non-overlapping paths, depth <= 2), open a Pull (read mask or not, updates_only 1 in 4; at most 2 open), cancel a Pull, and a two-shot update-mask probe. "+
		"After every Update: response == next Get (or, if rejected, Get unchanged), other keys unchanged, and at the next quiescent point every open stream of that key whose masked view changed by a large step has received a change whose last value is the (projected) response and whose name is the Pull request's name; streams of other keys received nothing. "+
		"After every masked Get / Pull open: the value equals the reference projection of the full Get, and the full Get is the same as before the read. "+
		"History 0 of every triple is run by every worker first: a directed part (for every value the table lists as accepted by a business rule - preset names, mode ids - Update {field: value}, then a masked Get and a masked Pull for every mask path at or below that field) and one step of every operation class, so that a class that crashes the process or damages the server state is found early and (like a crashed class) not used again on that server. "+
		"Forced windows (vk.Sched on the verif hooks, 4/60 repetitions per triple): a new Pull parked between snapshot and listener registration while an accepted large Update is started, and an Update parked between commit and publication while a new Pull is opened; after the release, at quiescence, the Update has returned, the stream ends on its response and Get equals it. "+
		"Stalled reader (1/12 repetitions per triple): a Pull whose client takes the seed and stops receiving, then up to 6 accepted large Updates one after the other: each has returned at the next quiescent point, OK => equals the next Get, error => Get unchanged; then the stream is cancelled and a fresh Pull plus one Update are checked as usual. "+
		"A case is distinct by (server, triple, operation, value kind, mask class and paths, outcome code, top-level fields that changed, stream configuration) and non-trivial when it reaches the server (every counted case does).",
		"reference projection is vk.RefProject (independent of pkg/masks); read masks are valid paths only and never contain a path together with one of its descendants (invalid read masks and parent+child masks are C06's subject)",
		"'changes the value beyond the tolerance' is decided on the observed values: a non-float leaf differs, or a float leaf differs by >= 1 (configured tolerances in pkg/trait models with a triple: 0.01 absolute); smaller changes may or may not be delivered",
		"between two quiescent points exactly one Update is in flight, so every change that arrives belongs to it; intermediate changes are accepted, the last one must carry the response",
		"a stream opened with a read mask must carry the projection of the response (clause suffix /masked)",
		"what an updates-only Pull delivers first is observed, not judged; whether an invalid or empty update_mask is accepted is observed, not judged",
		"an Update request always carries a value message (a request without one is a malformed request, not a random update)",
		"clause update-mask-ignored (update_mask [A], request also changes B, stored B follows the request twice although the second write repeats A) goes beyond the literal statement: it checks the anchored mechanism 'servers translate update_mask into resource options'; messages with a single field (OnOff, ModeValues) cannot be probed",
		"lightpb.MemoryDevice in the generated histories only with zero tween duration (its ramp writer runs on a wall-clock ticker; it is driven separately by the ramp-then-plain cases, whose verdict waits for the ramp goroutine to exit); hailpb.Model with the wall-clock driven garbage collection switched off",
		"a triple all of whose RPCs answer Unimplemented does not expose a resource and is outside the domain (presspb.ModelServer, see notes)")

	targets := discover(r)
	if len(targets) == 0 {
		r.Inconclusive("no-targets", "no Get/Update/Pull triple could be driven")
		return
	}

	// every worker first runs the probe history of every triple (crash classes surface early, see runHistory)
	for _, t := range targets {
		if !r.Selected(t.base) {
			continue
		}
		runHistory(r, t, 0, true)
	}
	// forced windows (deterministic schedules): every triple x 2 windows x repetitions, dealt over the workers
	sched := vk.NewSched()
	reps := r.Pick(4, 60)
	fno := 0
	for rep := 0; rep < reps; rep++ {
		for _, t := range targets {
			for win := range forcedWindows {
				fno++
				if !r.Mine(fno) || !r.Selected(t.base) {
					continue
				}
				runForced(r, sched, t, win, rep)
			}
		}
	}
	for _, w := range forcedWindows {
		r.Require("checked/"+w.name, len(targets)*reps*3/4)
		for _, t := range targets {
			r.Require("checked/"+w.name+"/"+t.e.id+"/"+t.tr.x, reps/2)
		}
	}

	// the ramp writer of lightpb.MemoryDevice against a plain Update
	rampThenPlain(r)

	// stalled reader: every triple x repetitions
	sreps := r.Pick(1, 12)
	sno := 0
	for rep := 0; rep < sreps; rep++ {
		for _, t := range targets {
			sno++
			if !r.Mine(sno) || !r.Selected(t.base) {
				continue
			}
			runStalled(r, t, rep)
		}
	}
	r.Require("stalled/run", len(targets)*sreps)
	r.Require("stalled/accepted-large-updates", len(targets)*sreps*stalledUpdates*3/4)
	for _, t := range targets {
		r.Require("stalled/accepted-large-updates/"+t.e.id+"/"+t.tr.x, sreps*4)
	}

	per := r.Pick(70, 9000)
	caseNo := 0
	for hno := 1; hno <= per; hno++ {
		for _, t := range targets {
			caseNo++
			if !r.Mine(caseNo) || !r.Selected(t.base) {
				continue
			}
			runHistory(r, t, hno, false)
		}
	}

	// minimums: roughly half of what the quick tier yields on the unchanged tree, scaled with the tier
	scale := per / 70
	need := func(c string, q int) { r.Require(c, q*scale) }
	need("histories", 900)
	need("updates", 5000)
	need("checked/update-vs-get", 3500)
	need("checked/rejected-unchanged", 800)
	need("checked/masked-get", 2000)
	need("checked/read-leaves-get-unchanged", 3000)
	need("checked/seed", 600)
	need("checked/seed-masked", 300)
	need("checked/stream-required", 1200)
	need("checked/stream-required-masked", 400)
	need("checked/stream-name", 2500)
	need("checked/stream-of-other-key", 300)
	if checkUpdateMaskHonoured {
		need("checked/update-mask", 300)
	}
	for _, t := range targets {
		need("updates/"+t.e.id+"/"+t.tr.x+"/ok", 80)
		need("checked/stream-required/"+t.e.id+"/"+t.tr.x, 20)
	}
}

// discover matches the source tree with the table, finds the triples of every constructible server and probes
// that they are implemented. Counters and notes are recorded by worker 0 only (they are summed over workers).
func discover(r *vk.Run) []*target {
	first := r.Shard == 0
	root := sourceRoot()
	found, elsewhere, err := scanTree(root)
	if err != nil {
		r.Inconclusive("discovery/source-tree", "cannot scan "+root+": "+err.Error())
	}
	table := map[string]*serverEntry{}
	for _, e := range registry {
		table[e.id] = e
	}
	inTree := map[string]bool{}
	for _, f := range found {
		inTree[f.id] = true
		e, ok := table[f.id]
		if !ok {
			r.Inconclusive("uncovered/"+f.id, "server type declared in pkg/trait/"+f.file+" has no constructor in the monitor's table: not checked")
			continue
		}
		if e.file != f.file {
			r.Note("server %s found in %s, table says %s", f.id, f.file, e.file)
		}
	}
	if first {
		r.Count("discovery/servers-in-tree", len(found))
		var ids []string
		for _, f := range elsewhere {
			ids = append(ids, f.id+" ("+f.file+")")
		}
		if len(ids) > 0 {
			r.Note("server types declared outside model_server.go / memory*.go / collection_server.go, not model servers or memory devices, not driven: %s", strings.Join(ids, ", "))
		}
	}
	var targets []*target
	var noTriple, covered []string
	for _, e := range registry {
		if err == nil && !inTree[e.id] {
			r.Note("table entry %s (%s) is not in the source tree any more", e.id, e.file)
			if first {
				r.Count("discovery/table-entries-not-in-tree", 1)
			}
		}
		var in *instance
		if p, what := vk.Recover(func() { in = e.build("probe", vk.NewRand(1)) }); p {
			r.Inconclusive("uncovered/"+e.id, "constructor panicked: "+what)
			continue
		}
		if first {
			r.Count("discovery/servers-constructed", 1)
		}
		d := discoverTriples(in)
		for _, a := range d.ambiguous {
			r.Inconclusive("uncovered/"+e.id+"/"+a, "several Update/Pull candidates of the same type and none matches by name")
		}
		live := map[string]bool{}
		for _, x := range e.live {
			live[x] = false
		}
		var xs []string
		for _, tr := range d.triples {
			t := &target{e: e, tr: tr, mg: newMaskGen(tr.t), base: "C14/" + e.id + "/" + tr.x}
			unimpl := probeImplemented(r, t, in)
			if len(unimpl) > 0 {
				if _, expected := live[tr.x]; expected {
					r.Inconclusive("uncovered/"+e.id+"/"+tr.x, "triple expected to be served answers Unimplemented for "+strings.Join(unimpl, ", "))
				} else if first {
					r.Count("discovery/triples-in-descriptors-but-unimplemented", 1)
					r.Note("%s: triple %s (%s/%s/%s) is in the service descriptors but %s answer(s) Unimplemented: outside the domain, not judged", e.id, tr.x, tr.get.md.Name(), tr.update.md.Name(), tr.pull.md.Name(), strings.Join(unimpl, ", "))
				}
				continue
			}
			if _, expected := live[tr.x]; !expected {
				r.Note("%s: triple %s found and driven although the table does not list it", e.id, tr.x)
			}
			live[tr.x] = true
			targets = append(targets, t)
			xs = append(xs, fmt.Sprintf("%s[%s,%s,%s]", tr.x, tr.get.md.Name(), tr.update.md.Name(), tr.pull.md.Name()))
		}
		for x, ok := range live {
			if !ok {
				r.Inconclusive("uncovered/"+e.id+"/"+x, "triple listed in the table was not found in the service descriptors or is not served")
			}
		}
		if len(xs) == 0 {
			noTriple = append(noTriple, fmt.Sprintf("%s (Get+Pull without Update: %d)", e.id, len(d.pairs)))
			if first {
				r.Count("discovery/servers-without-triple(out of domain)", 1)
				r.Count("discovery/get-pull-pairs-without-update(out of domain)", len(d.pairs))
			}
		} else {
			covered = append(covered, e.id+": "+strings.Join(xs, " "))
			if first {
				r.Count("discovery/servers-with-triple", 1)
				r.Count("discovery/triples-driven", len(xs))
			}
		}
		if first && e.note != "" {
			r.Note("%s", e.note)
		}
	}
	if first {
		sort.Strings(covered)
		sort.Strings(noTriple)
		r.Note("driven: %s", strings.Join(covered, "; "))
		r.Note("no Get/Update/Pull triple (outside the property's domain): %s", strings.Join(noTriple, "; "))
		r.Require("discovery/servers-in-tree", 20)
		r.Require("discovery/triples-driven", 12)
	}
	return targets
}

// probeImplemented calls the three RPCs of a triple once and returns those that answer Unimplemented.
func probeImplemented(r *vk.Run, t *target, in *instance) []string {
	tr := t.tr
	key := ""
	if tr.getKey != nil {
		if ks := in.keys[tr.x]; len(ks) > 0 {
			key = ks[0]
		} else {
			r.Inconclusive("uncovered/"+t.e.id+"/"+tr.x, "keyed resource (key field "+string(tr.getKey.Name())+") but the table's constructor creates no key")
			return []string{"<no key>"}
		}
	}
	var out []string
	probeKey := t.base + "/crash/probe"
	if r.Only == "" && !r.Guard(probeKey, "liveness probe") {
		return []string{"<probe crashed earlier>"}
	}
	defer r.Unguard()
	cur, err := in.unary(tr.get, tr.getReq(in.name, key, nil))
	if isUnimplemented(err) {
		out = append(out, string(tr.get.md.Name()))
	}
	var v proto.Message
	if cur != nil {
		v = proto.Clone(cur)
	} else {
		v = newMsg(tr.t).Interface()
		if tr.valueKey != nil {
			v.ProtoReflect().Set(tr.valueKey, protoreflect.ValueOfString(key))
		}
	}
	h := &histCtx{r: r, t: t, in: in}
	u := &updSpec{key: key, value: v}
	h.buildReq(u)
	if _, err := in.unary(tr.update, u.req); isUnimplemented(err) {
		out = append(out, string(tr.update.md.Name()))
	}
	ps, err := in.openPull(tr, key, nil, false)
	if err == nil {
		vk.Quiesce()
		_, ended, eerr := ps.fresh()
		if ended && isUnimplemented(eerr) {
			out = append(out, string(tr.pull.md.Name()))
		}
		ps.cancel()
		vk.Quiesce()
	} else if isUnimplemented(err) {
		out = append(out, string(tr.pull.md.Name()))
	}
	return out
}
