package main

// Forced scenarios through the full wrapper-router-wrapper stack, sequenced with the verif hooks (vk.Sched):
//
//	subscribe-window: the server-side subscribe of a new Pull (not updates-only) is parked between its snapshot and
//	  the registration of its listener (value.sub.afterSnapshot / col.sub.afterSnapshot); an Update with a large
//	  change is started meanwhile; at quiescence the park is released.
//	publish-window: an Update is parked after its commit and before its publication (value.set.beforePublish /
//	  col.update.beforePublish); a new Pull is opened meanwhile; at quiescence the park is released.
//
// In both, at the final quiescent point the Update must have returned, the stream (read to that point) must end on
// the Update's response - as the seed or as a following change - and Get must equal it. With the lock discipline
// of the library the Update of the first scenario simply waits for the subscriber; the scenario tells whether the
// window is closed, not how.

import (
	"fmt"

	"google.golang.org/protobuf/proto"

	"github.com/smart-core-os/sc-golang/internal/verif/vk"
)

var forcedWindows = []struct {
	name   string
	points []string
}{
	{"forced-subscribe-window", []string{"value.sub.afterSnapshot", "col.sub.afterSnapshot"}},
	{"forced-publish-window", []string{"value.set.beforePublish", "col.update.beforePublish"}},
}

// acceptedLargeUpdate finds, on a throw-away twin of the instance, an Update (no mask, value derived from the
// current one by large steps) that the server accepts and that changes the value by a large step.
func acceptedLargeUpdate(r *vk.Run, t *target, name string, seed uint64, rng *vk.Rand) *updSpec {
	for try := 0; try < 40; try++ {
		h := &histCtx{r: r, t: t, rng: rng, cur: map[string]proto.Message{}, curE: map[string]string{}}
		h.in = t.e.build(name, vk.NewRand(seed))
		key := h.keys()[0]
		before, err, _ := h.getFull(key)
		if err != nil || before == nil {
			return nil
		}
		v := proto.Clone(before).ProtoReflect()
		var touched []string
		for i := 0; i < 2; i++ {
			if p := mutateLarge(rng, v, 0, "", t.hint, t.tr.valueKey); p != "" {
				touched = append(touched, p)
			}
		}
		u := &updSpec{key: key, value: v.Interface(), maskClass: "none", valueKind: "forced", touched: dedupe(touched)}
		if t.e.sanitize != nil {
			t.e.sanitize(t.tr.x, u.value)
		}
		h.buildReq(u)
		if _, err := h.in.unary(t.tr.update, u.req); err != nil {
			continue
		}
		after, aerr, _ := h.getFull(key)
		if aerr != nil || !largeDiff(before, after) {
			continue
		}
		return u
	}
	return nil
}

func runForced(r *vk.Run, sched *vk.Sched, t *target, win int, rep int) {
	w := forcedWindows[win]
	rng := r.CaseRand("forced/"+w.name+"/"+t.e.id+"/"+t.tr.x, rep)
	name := deviceNames[rng.Intn(len(deviceNames))]
	seed := rng.Uint64()
	h := &histCtx{r: r, t: t, rng: rng, hno: -1 - rep, cur: map[string]proto.Message{}, curE: map[string]string{}}
	if !h.guard(w.name) {
		return
	}
	defer r.Unguard()
	u := acceptedLargeUpdate(r, t, name, seed, rng)
	if u == nil {
		r.Count("forced/no-accepted-update", 1)
		return
	}
	h.in = t.e.build(name, vk.NewRand(seed))
	key := u.key
	before, _, _ := h.getFull(key)
	h.logf("Get(key=%q) -> %s", key, vk.JSON(before))
	h.buildReq(u)

	var parks []*vk.Park
	for _, p := range w.points {
		parks = append(parks, sched.ParkAt(p, nil))
	}
	release := func() {
		for _, p := range parks {
			p.Release()
		}
	}
	arrived := func() bool {
		for _, p := range parks {
			if p.Arrived() {
				return true
			}
		}
		return false
	}
	var (
		ps      *pullStream
		resp    proto.Message
		uerr    error
		openErr error
		tu      *vk.Task
	)
	update := func() { resp, uerr = h.in.unary(t.tr.update, u.req) }
	open := func() { ps, openErr = h.in.openPull(t.tr, key, nil, false) }
	reached := false
	if win == 0 {
		open()
		if openErr != nil {
			release()
			h.violate(w.name+"/pull-failed", "Pull could not be started: "+openErr.Error())
			return
		}
		vk.Quiesce()
		reached = arrived()
		h.logf("Pull opened; server-side subscribe parked after its snapshot: %v", reached)
		tu = vk.Go(update)
		vk.Quiesce()
		h.logf("Update(%s) started while the subscriber is parked; returned before the release: %v", vk.JSON(u.req), tu.Done())
		release()
	} else {
		tu = vk.Go(update)
		vk.Quiesce()
		reached = arrived()
		h.logf("Update(%s) parked after its commit, before its publication: %v", vk.JSON(u.req), reached)
		open()
		if openErr != nil {
			release()
			tu.Wait()
			h.violate(w.name+"/pull-failed", "Pull could not be started: "+openErr.Error())
			return
		}
		vk.Quiesce()
		release()
	}
	defer func() {
		if ps != nil {
			ps.cancel()
		}
	}()
	if _, ok := r.MustQuiesce(w.name); !ok {
		release()
		return
	}
	r.Count("forced/"+w.name+"/run", 1)
	if !reached {
		r.Count("forced/"+w.name+"/window-not-reached", 1)
		return
	}
	if !tu.Done() {
		h.violate(w.name+"/update-blocked", "at the quiescent point after the release the Update has not returned\n"+vk.DescribeGs(vk.LibraryGoroutines(vk.Goroutines(), nil)))
		return
	}
	h.logf("Update -> %s %s", codeOf(uerr), vk.JSON(resp))
	if uerr != nil {
		r.Count("forced/"+w.name+"/update-rejected(not judged)", 1)
		return
	}
	cs, ended, eerr := ps.fresh()
	h.logf("stream read to the quiescent point: %d changes%s (ended=%v %v)", len(cs), describeChanges(cs), ended, eerr)
	after, aerr, _ := h.getFull(key)
	h.logf("Get(key=%q) -> %s %s", key, codeOf(aerr), vk.JSON(after))
	r.Eval(3)
	r.Count("checked/"+w.name, 1)
	r.Count("checked/"+w.name+"/"+t.e.id+"/"+t.tr.x, 1)
	r.Distinct(fmt.Sprintf("%s|%s|%v|n=%d", t.base, w.name, changedTop(before, after), len(cs)))
	h.checkNames(ps, cs, "")
	if aerr != nil || !proto.Equal(resp, after) {
		h.violate(w.name+"/get", fmt.Sprintf("the Update returned %s, the Get at the quiescent point returned %s %s", vk.JSON(resp), codeOf(aerr), vk.JSON(after)))
	}
	switch {
	case len(cs) == 0:
		h.violate(w.name+"/stream-empty", "the new Pull (not updates-only) has delivered nothing at the quiescent point")
	case cs[len(cs)-1].value == nil || !proto.Equal(cs[len(cs)-1].value, resp):
		h.violate(w.name+"/stream-end", fmt.Sprintf("the stream ends on %s although the Update (large change, successful, returned) stored %s: the Update is neither in the seed nor delivered as a change", vk.JSON(cs[len(cs)-1].value), vk.JSON(resp)))
	default:
		if len(cs) == 1 {
			r.Count("forced/"+w.name+"/update-in-seed", 1)
		} else {
			r.Count("forced/"+w.name+"/update-as-change", 1)
		}
	}
	if r.WantSample(w.name) {
		r.Sample(w.name, map[string]any{"server": t.e.id, "triple": t.tr.x, "log": h.log})
	}
}
