package main

import (
	"context"
	"fmt"
	"strings"
	"sync"
	"time"

	"github.com/smart-core-os/sc-api/go/traits"
	"github.com/smart-core-os/sc-api/go/types"
	"google.golang.org/grpc"
	"google.golang.org/grpc/codes"
	"google.golang.org/grpc/status"
	"google.golang.org/protobuf/proto"
	"google.golang.org/protobuf/types/known/durationpb"

	"github.com/smart-core-os/sc-golang/internal/verif/vk"
	"github.com/smart-core-os/sc-golang/pkg/trait/lightpb"
)

// rampThenPlain: the one background writer among the memory devices. lightpb.MemoryDevice.UpdateBrightness with a
// positive tween duration starts a goroutine that writes the ramp's progress on a wall-clock ticker; a later plain
// Update takes the value over and the ramp has to give way. The workload is timed (a ramp of 5-300 ms, a plain
// Update 0-280 ms after it), the verdict is not: the monitor waits until the ramp goroutine has EXITED (seen in the
// goroutine dump; a watchdog makes the case inconclusive), and then read-your-writes must hold - Get equals the plain
// Update's response and so does the last value of a Pull stream opened before the ramp.
func rampThenPlain(r *vk.Run) {
	type tc struct{ ramp, delay time.Duration }
	var cases []tc
	for _, ramp := range []time.Duration{5, 20, 50} { // shorter than one device tick (1/15 s): the first tick finishes the ramp
		for _, delay := range []time.Duration{0, 10, 40} {
			cases = append(cases, tc{ramp * time.Millisecond, delay * time.Millisecond})
		}
	}
	for _, ramp := range []time.Duration{100, 200, 300} { // several ticks: the plain Update lands in an early, middle or the last one
		for _, back := range []time.Duration{20, 50, 90} {
			cases = append(cases, tc{ramp * time.Millisecond, (ramp - back) * time.Millisecond})
		}
	}
	reps := r.Pick(1, 6)
	no := 0
	for rep := 0; rep < reps; rep++ {
		for _, c := range cases {
			no++
			if !r.Mine(no) || !r.Selected("C14/lightpb.MemoryDevice/Brightness") {
				continue
			}
			// the ramp writer is a goroutine of the device: if it panics the process dies, the guard names the case
			if !r.Guard("C14/lightpb.MemoryDevice/Brightness/ramp-then-plain/crash", map[string]any{"ramp": c.ramp.String(), "plain_update_after": c.delay.String()}) {
				continue
			}
			rampCase(r, c.ramp, c.delay)
			r.Unguard()
		}
	}
	// forced: the plain Update commits exactly while a tick of the ramp is between its read and the write lock
	for k := 0; k < r.Pick(2, 12); k++ {
		no++
		if !r.Mine(no) || !r.Selected("C14/lightpb.MemoryDevice/Brightness") {
			continue
		}
		if !r.Guard("C14/lightpb.MemoryDevice/Brightness/ramp-then-plain/crash", map[string]any{"forced": "plain Update commits while a ramp tick is between its read and the lock"}) {
			continue
		}
		rampConflictCase(r)
		r.Unguard()
	}
	if r.Selected("C14/lightpb.MemoryDevice/Brightness") {
		r.Require("ramp/cases", len(cases)*reps/2)
	}
}

type rampStream struct {
	grpc.ServerStream
	ctx  context.Context
	mu   sync.Mutex
	last *traits.Brightness
	n    int
	all  []*traits.Brightness
}

func (s *rampStream) Context() context.Context { return s.ctx }
func (s *rampStream) Send(m *traits.PullBrightnessResponse) error {
	s.mu.Lock()
	defer s.mu.Unlock()
	for _, c := range m.Changes {
		s.last = proto.Clone(c.Brightness).(*traits.Brightness)
		s.all = append(s.all, s.last)
		s.n++
	}
	return nil
}

func rampGoroutines() int {
	n := 0
	for _, g := range vk.Goroutines() {
		for _, f := range g.Funcs {
			if strings.Contains(f, "lightpb.(*MemoryDevice).UpdateBrightness.func") {
				n++
				break
			}
		}
	}
	return n
}

func rampCase(r *vk.Run, ramp, delay time.Duration) {
	dev := lightpb.NewMemoryDevice()
	ctx, cancel := context.WithCancel(context.Background())
	defer cancel()
	st := &rampStream{ctx: ctx}
	go func() { _ = dev.PullBrightness(&traits.PullBrightnessRequest{Name: "d"}, st) }()
	// a second subscriber that does not want the ramp's progress
	quiet := &rampStream{ctx: ctx}
	go func() {
		_ = dev.PullBrightness(&traits.PullBrightnessRequest{Name: "d", ExcludeRamping: true}, quiet)
	}()
	vk.Quiesce()
	key := func(c string) string { return "C14/lightpb.MemoryDevice/Brightness/ramp-then-plain/" + c }
	desc := fmt.Sprintf("lightpb.MemoryDevice: UpdateBrightness(level 80, tween %v), %v later UpdateBrightness(level 5) without a tween", ramp, delay)
	replay := map[string]any{"ramp": ramp.String(), "plain_update_after": delay.String()}
	started := time.Now()
	resp0, err := dev.UpdateBrightness(ctx, &traits.UpdateBrightnessRequest{Name: "d", Brightness: &traits.Brightness{LevelPercent: 80, BrightnessTween: &types.Tween{TotalDuration: durationpb.New(ramp)}}})
	if err != nil {
		r.Inconclusive(key("setup"), desc+": the ramped Update failed: "+err.Error())
		return
	}
	resp0 = proto.Clone(resp0).(*traits.Brightness)
	// The ramped Update is a successful Update that changed the value: its response is on every open stream. Decided
	// without a clock: at the quiescent point after the Update everything published has been delivered; when the plain
	// stream holds exactly the seed and this response, no tick of the ramp has been published yet, and then the
	// subscriber that excludes ramp progress must hold the response too (it is the start of the ramp, not progress).
	vk.Quiesce()
	st.mu.Lock()
	plain := append([]*traits.Brightness{}, st.all...)
	st.mu.Unlock()
	quiet.mu.Lock()
	q := append([]*traits.Brightness{}, quiet.all...)
	quiet.mu.Unlock()
	if len(plain) == 2 && proto.Equal(plain[1], resp0) {
		r.Count("ramp/start-checked", 1)
		found := false
		for _, b := range q {
			found = found || proto.Equal(b, resp0)
		}
		if !found {
			r.Violation(key("ramp-start-not-on-stream/exclude-ramping"), fmt.Sprintf("lightpb.MemoryDevice: UpdateBrightness(level 80, tween %v) returned %s, which the plain Pull stream carries; the stream opened with exclude_ramping holds only %s at the quiescent point after the Update (no ramp tick published yet)", ramp, vk.JSON(resp0), renderBrightness(q)), replay)
			return
		}
	} else {
		r.Count("ramp/start-not-checked(tick-intervened)", 1)
	}
	if rest := delay - time.Since(started); rest > 0 {
		time.Sleep(rest)
	}
	// a plain Update that loses a race with a tick of the ramp is refused with Aborted, the client tries again
	var resp *traits.Brightness
	for try := 0; try < 50; try++ {
		resp, err = dev.UpdateBrightness(ctx, &traits.UpdateBrightnessRequest{Name: "d", Brightness: &traits.Brightness{LevelPercent: 5}})
		if status.Code(err) != codes.Aborted {
			break
		}
		r.Count("ramp/plain-update-retried-after-aborted", 1)
	}
	if err != nil {
		r.Count("ramp/plain-update-rejected", 1)
		return
	}
	resp = proto.Clone(resp).(*traits.Brightness)
	// wait for the ramp goroutine to end (it gives way at its next tick, or has already finished)
	gone := false
	for i := 0; i < 1000; i++ {
		if rampGoroutines() == 0 {
			gone = true
			break
		}
		time.Sleep(10 * time.Millisecond)
	}
	if !gone {
		r.Inconclusive(key("ramp-goroutine-still-there"), desc+": the ramp goroutine is still running 10 s later")
		return
	}
	vk.Quiesce()
	r.Eval(1)
	r.Count("ramp/cases", 1)
	r.Distinct(fmt.Sprintf("ramp|%v|%v", ramp, delay))
	got, _ := dev.GetBrightness(ctx, &traits.GetBrightnessRequest{Name: "d"})
	if !proto.Equal(got, resp) {
		r.Violation(key("get"), fmt.Sprintf("%s returned %s; after the ramp goroutine ended, with no further Update, Get returns %s", desc, vk.JSON(resp), vk.JSON(got)), replay)
		return
	}
	st.mu.Lock()
	last, n := st.last, st.n
	st.mu.Unlock()
	if n == 0 || !proto.Equal(last, resp) {
		r.Violation(key("stream-end"), fmt.Sprintf("%s returned %s; the Pull stream opened before it ends (after %d values) on %s", desc, vk.JSON(resp), n, vk.JSON(last)), replay)
	}
}

func renderBrightness(l []*traits.Brightness) string {
	var ss []string
	for _, b := range l {
		ss = append(ss, vk.JSON(b))
	}
	return "[" + strings.Join(ss, ", ") + "]"
}

// rampConflictCase: a ramp of 400 ms is started; the first write of the ramp goroutine (a tick) is held between its
// optimistic read and the write lock (hook gau.beforeLock) while the client's plain Update commits; then the tick
// goes on and finds the value changed under it. The ramp has to give way like after any other client Update: the
// process lives, and once the ramp goroutine is gone Get returns the plain Update's response.
func rampConflictCase(r *vk.Run) {
	sched := vk.NewSched()
	defer sched.Close()
	dev := lightpb.NewMemoryDevice()
	ctx, cancel := context.WithCancel(context.Background())
	defer cancel()
	key := func(c string) string { return "C14/lightpb.MemoryDevice/Brightness/ramp-then-plain/" + c }
	desc := "lightpb.MemoryDevice: UpdateBrightness(level 80, tween 400ms); a tick of the ramp is held between its read and the write lock while UpdateBrightness(level 5) commits"
	_, err := dev.UpdateBrightness(ctx, &traits.UpdateBrightnessRequest{Name: "d", Brightness: &traits.Brightness{LevelPercent: 80, BrightnessTween: &types.Tween{TotalDuration: durationpb.New(400 * time.Millisecond)}}})
	if err != nil {
		r.Count("ramp/forced-conflict-setup-failed", 1)
		return
	}
	seen := 0
	park := sched.ParkAt("gau.beforeLock", func(_, _ any) bool { seen++; return seen == 1 }) // the next write is the ramp's tick
	arrived := false
	for i := 0; i < 300 && !arrived; i++ {
		time.Sleep(5 * time.Millisecond)
		arrived = park.Arrived()
	}
	if !arrived {
		park.Release()
		r.Count("ramp/forced-conflict-window-not-reached", 1)
		return
	}
	resp, err := dev.UpdateBrightness(ctx, &traits.UpdateBrightnessRequest{Name: "d", Brightness: &traits.Brightness{LevelPercent: 5}})
	park.Release()
	if err != nil {
		r.Count("ramp/forced-conflict-plain-update-rejected", 1)
		return
	}
	resp = proto.Clone(resp).(*traits.Brightness)
	gone := false
	for i := 0; i < 1000 && !gone; i++ {
		time.Sleep(10 * time.Millisecond)
		gone = rampGoroutines() == 0
	}
	if !gone {
		r.Inconclusive(key("ramp-goroutine-still-there"), desc+": the ramp goroutine is still running 10 s later")
		return
	}
	vk.Quiesce()
	r.Eval(1)
	r.Count("ramp/forced-conflict-cases", 1)
	r.Distinct("ramp|forced-conflict")
	got, _ := dev.GetBrightness(ctx, &traits.GetBrightnessRequest{Name: "d"})
	if !proto.Equal(got, resp) {
		r.Violation(key("get"), fmt.Sprintf("%s and returned %s; after the ramp goroutine ended, with no further Update, Get returns %s", desc, vk.JSON(resp), vk.JSON(got)), map[string]any{"forced": true})
	}
}
