// Package srvkit gives monitors generic access to every trait model server: a table of constructors, the
// services each server registers, fake server streams and a pool of ids harvested from responses.
package srvkit

import (
	"context"
	"strings"
	"sync"

	"github.com/smart-core-os/sc-api/go/traits"
	"github.com/smart-core-os/sc-api/go/types"
	"google.golang.org/grpc"
	"google.golang.org/grpc/metadata"
	"google.golang.org/protobuf/proto"
	"google.golang.org/protobuf/reflect/protoreflect"
	"google.golang.org/protobuf/reflect/protoregistry"

	"github.com/smart-core-os/sc-golang/internal/verif/vk"
	"github.com/smart-core-os/sc-golang/pkg/trait/accesspb"
	"github.com/smart-core-os/sc-golang/pkg/trait/airqualitysensorpb"
	"github.com/smart-core-os/sc-golang/pkg/trait/airtemperaturepb"
	"github.com/smart-core-os/sc-golang/pkg/trait/bookingpb"
	"github.com/smart-core-os/sc-golang/pkg/trait/countpb"
	"github.com/smart-core-os/sc-golang/pkg/trait/electricpb"
	"github.com/smart-core-os/sc-golang/pkg/trait/emergencypb"
	"github.com/smart-core-os/sc-golang/pkg/trait/energystoragepb"
	"github.com/smart-core-os/sc-golang/pkg/trait/enterleavesensorpb"
	"github.com/smart-core-os/sc-golang/pkg/trait/fanspeedpb"
	"github.com/smart-core-os/sc-golang/pkg/trait/hailpb"
	"github.com/smart-core-os/sc-golang/pkg/trait/lightpb"
	"github.com/smart-core-os/sc-golang/pkg/trait/metadatapb"
	"github.com/smart-core-os/sc-golang/pkg/trait/meterpb"
	"github.com/smart-core-os/sc-golang/pkg/trait/modepb"
	"github.com/smart-core-os/sc-golang/pkg/trait/occupancysensorpb"
	"github.com/smart-core-os/sc-golang/pkg/trait/onoffpb"
	"github.com/smart-core-os/sc-golang/pkg/trait/openclosepb"
	"github.com/smart-core-os/sc-golang/pkg/trait/parentpb"
	"github.com/smart-core-os/sc-golang/pkg/trait/publicationpb"
	"github.com/smart-core-os/sc-golang/pkg/trait/speakerpb"
	"github.com/smart-core-os/sc-golang/pkg/trait/vendingpb"
	"github.com/smart-core-os/sc-golang/pkg/trait/wastepb"
)

// Registrar captures what a server registers.
type Registrar struct{ Svcs []Svc }

type Svc struct {
	Desc *grpc.ServiceDesc
	Impl any
}

func (g *Registrar) RegisterService(desc *grpc.ServiceDesc, impl any) {
	g.Svcs = append(g.Svcs, Svc{desc, impl})
}

type registerer interface{ Register(grpc.ServiceRegistrar) }

type ServerEntry struct {
	Name string
	Mk   func() []Svc
}

func viaRegister(f func() registerer) func() []Svc {
	return func() []Svc {
		var g Registrar
		f().Register(&g)
		return g.Svcs
	}
}

func ServerTable() []ServerEntry {
	return []ServerEntry{
		{"accesspb.ModelServer", func() []Svc {
			return []Svc{{&traits.AccessApi_ServiceDesc, accesspb.NewModelServer(accesspb.NewModel())}}
		}},
		{"airqualitysensorpb.ModelServer", viaRegister(func() registerer { return airqualitysensorpb.NewModelServer(airqualitysensorpb.NewModel()) })},
		{"airtemperaturepb.ModelServer", viaRegister(func() registerer { return airtemperaturepb.NewModelServer(airtemperaturepb.NewModel()) })},
		{"airtemperaturepb.MemoryDevice", viaRegister(func() registerer { return airtemperaturepb.NewMemoryDevice() })},
		{"bookingpb.ModelServer", viaRegister(func() registerer { return bookingpb.NewModelServer(bookingpb.NewModel()) })},
		{"countpb.MemoryDevice", func() []Svc { return []Svc{{&traits.CountApi_ServiceDesc, countpb.NewMemoryDevice()}} }},
		{"electricpb.ModelServer", viaRegister(func() registerer { return electricpb.NewModelServer(electricpb.NewModel()) })},
		{"emergencypb.MemoryDevice", viaRegister(func() registerer { return emergencypb.NewMemoryDevice() })},
		{"energystoragepb.ModelServer", viaRegister(func() registerer { return energystoragepb.NewModelServer(energystoragepb.NewModel()) })},
		{"enterleavesensorpb.ModelServer", viaRegister(func() registerer {
			// events only enter through the model (there is no RPC for it): start with one that names an occupant
			m := enterleavesensorpb.NewModel()
			_ = m.CreateEnterLeaveEvent(&traits.EnterLeaveEvent{Direction: traits.EnterLeaveEvent_ENTER, Occupant: &traits.EnterLeaveEvent_Occupant{Name: "visitor", Title: "Visitor"}})
			return enterleavesensorpb.NewModelServer(m)
		})},
		{"fanspeedpb.ModelServer", viaRegister(func() registerer { return fanspeedpb.NewModelServer(fanspeedpb.NewModel()) })},
		{"hailpb.ModelServer", viaRegister(func() registerer { return hailpb.NewModelServer(hailpb.NewModel()) })},
		{"lightpb.ModelServer", viaRegister(func() registerer {
			return lightpb.NewModelServer(lightpb.NewModel(lightpb.WithPreset(20, &traits.LightPreset{Name: "dim", Title: "Dim"}), lightpb.WithPreset(90, &traits.LightPreset{Name: "bright", Title: "Bright"})))
		})},
		{"metadatapb.ModelServer", viaRegister(func() registerer { return metadatapb.NewModelServer(metadatapb.NewModel()) })},
		{"meterpb.ModelServer", func() []Svc { return []Svc{{&traits.MeterApi_ServiceDesc, meterpb.NewModelServer(meterpb.NewModel())}} }},
		{"modepb.ModelServer", viaRegister(func() registerer { return modepb.NewModelServer(modepb.NewModel()) })},
		{"occupancysensorpb.ModelServer", viaRegister(func() registerer { return occupancysensorpb.NewModelServer(occupancysensorpb.NewModel()) })},
		{"onoffpb.ModelServer", viaRegister(func() registerer { return onoffpb.NewModelServer(onoffpb.NewModel()) })},
		{"openclosepb.ModelServer", viaRegister(func() registerer {
			// two presets, so that the states can match one and reads carry the preset descriptor
			return openclosepb.NewModelServer(openclosepb.NewModel(
				openclosepb.WithPreset(&traits.OpenClosePositions_Preset{Name: "closed", Title: "Closed"}, &traits.OpenClosePosition{OpenPercent: 0}),
				openclosepb.WithPreset(&traits.OpenClosePositions_Preset{Name: "ajar", Title: "Ajar"}, &traits.OpenClosePosition{OpenPercent: 30}, &traits.OpenClosePosition{OpenPercent: 10, Direction: traits.OpenClosePosition_UP})))
		})},
		{"parentpb.ModelServer", func() []Svc {
			return []Svc{{&traits.ParentApi_ServiceDesc, parentpb.NewModelServer(parentpb.NewModel())}}
		}},
		{"publicationpb.ModelServer", viaRegister(func() registerer { return publicationpb.NewModelServer(publicationpb.NewModel()) })},
		{"speakerpb.MemoryDevice", viaRegister(func() registerer { return speakerpb.NewMemoryDevice(&types.AudioLevel{Gain: 10}) })},
		{"vendingpb.ModelServer", viaRegister(func() registerer {
			// something to dispense from the start: a consumable with a stock record in litres
			m := vendingpb.NewModel()
			_, _ = m.CreateConsumable(&traits.Consumable{Name: "water", Title: "Water"})
			_, _ = m.CreateStock(&traits.Consumable_Stock{Consumable: "water",
				Used:      &traits.Consumable_Quantity{Amount: 1, Unit: traits.Consumable_LITER},
				Remaining: &traits.Consumable_Quantity{Amount: 50, Unit: traits.Consumable_LITER}})
			return vendingpb.NewModelServer(m)
		})},
		{"wastepb.ModelServer", func() []Svc { return []Svc{{&traits.WasteApi_ServiceDesc, wastepb.NewModelServer(wastepb.NewModel())}} }},
	}
}

// FakeStream is the grpc.ServerStream handed to streaming handlers: it gives the request to the handler and retains
// what the server sends, without copying (so the real pointers are seen).
type FakeStream struct {
	Ctx  context.Context
	Req  proto.Message
	Took bool
	Send func(m proto.Message)
}

func (f *FakeStream) SetHeader(metadata.MD) error  { return nil }
func (f *FakeStream) SendHeader(metadata.MD) error { return nil }
func (f *FakeStream) SetTrailer(metadata.MD)       {}
func (f *FakeStream) Context() context.Context     { return f.Ctx }
func (f *FakeStream) SendMsg(m any) error {
	if pm, ok := m.(proto.Message); ok {
		f.Send(pm)
	}
	return nil
}
func (f *FakeStream) RecvMsg(m any) error {
	if f.Took {
		<-f.Ctx.Done()
		return f.Ctx.Err()
	}
	f.Took = true
	proto.Merge(m.(proto.Message), f.Req)
	return nil
}

// IDPool remembers id-like strings seen in responses so that later requests address existing items.
type IDPool struct {
	mu  sync.Mutex
	ids []string
	// Masks enables random valid read/update masks in generated requests.
	Masks bool
}

// maskPathsFor picks 1-2 valid mask paths: for update_mask from the request's first singular message field other
// than the mask itself; for read_mask from the resource message the method's response carries (found through the
// service descriptors in the global registry: the method whose input is this request).
func maskPathsFor(rng *vk.Rand, req protoreflect.MessageDescriptor, maskField string) []string {
	var target protoreflect.MessageDescriptor
	fds := req.Fields()
	for i := 0; i < fds.Len(); i++ {
		fd := fds.Get(i)
		if fd.Message() != nil && !fd.IsList() && !fd.IsMap() && fd.Message().FullName() != "google.protobuf.FieldMask" {
			target = fd.Message()
			break
		}
	}
	if maskField == "read_mask" {
		if t := ReadTarget(req); t != nil {
			target = t
		}
	}
	if target == nil {
		return nil
	}
	return PathsOf(rng, target)
}

var (
	readTargetMu sync.Mutex
	readTargets  map[protoreflect.FullName]protoreflect.MessageDescriptor
)

// ReadTarget returns the message a read mask of req applies to: the response itself for Get-like methods, the
// element for List responses, the value inside each change for Pull responses.
func ReadTarget(req protoreflect.MessageDescriptor) protoreflect.MessageDescriptor {
	readTargetMu.Lock()
	defer readTargetMu.Unlock()
	if readTargets == nil {
		readTargets = map[protoreflect.FullName]protoreflect.MessageDescriptor{}
		protoregistry.GlobalFiles.RangeFiles(func(fd protoreflect.FileDescriptor) bool {
			svcs := fd.Services()
			for i := 0; i < svcs.Len(); i++ {
				ms := svcs.Get(i).Methods()
				for j := 0; j < ms.Len(); j++ {
					m := ms.Get(j)
					if _, dup := readTargets[m.Input().FullName()]; !dup {
						readTargets[m.Input().FullName()] = unwrapResponse(m.Output())
					}
				}
			}
			return true
		})
	}
	return readTargets[req.FullName()]
}

func unwrapResponse(out protoreflect.MessageDescriptor) protoreflect.MessageDescriptor {
	fds := out.Fields()
	if ch := fds.ByName("changes"); ch != nil && ch.IsList() && ch.Message() != nil {
		sub := ch.Message().Fields()
		for i := 0; i < sub.Len(); i++ {
			fd := sub.Get(i)
			if fd.Message() != nil && !fd.IsList() && !fd.IsMap() && !strings.HasPrefix(string(fd.Message().FullName()), "google.protobuf.") {
				return fd.Message()
			}
		}
		return nil
	}
	// list responses: one repeated message field, possibly with paging fields
	var rep protoreflect.FieldDescriptor
	others := 0
	for i := 0; i < fds.Len(); i++ {
		fd := fds.Get(i)
		switch {
		case fd.IsList() && fd.Message() != nil && rep == nil:
			rep = fd
		case fd.Name() == "next_page_token" || fd.Name() == "total_size":
		default:
			others++
		}
	}
	if rep != nil && others == 0 {
		return rep.Message()
	}
	return out
}

// PathsOf returns 1-2 random valid mask paths of md (depth <= 2, through singular and repeated messages).
func PathsOf(rng *vk.Rand, md protoreflect.MessageDescriptor) []string {
	var all []string
	fds := md.Fields()
	for i := 0; i < fds.Len(); i++ {
		fd := fds.Get(i)
		all = append(all, string(fd.Name()))
		if fd.Message() != nil && !fd.IsMap() {
			sub := fd.Message().Fields()
			for j := 0; j < sub.Len(); j++ {
				all = append(all, string(fd.Name())+"."+string(sub.Get(j).Name()))
			}
		}
	}
	if len(all) == 0 {
		return nil
	}
	out := []string{all[rng.Intn(len(all))]}
	if rng.Bool() {
		q := all[rng.Intn(len(all))]
		if q != out[0] && !strings.HasPrefix(q, out[0]+".") && !strings.HasPrefix(out[0], q+".") {
			out = append(out, q)
		}
	}
	return out
}

// add remembers s once.
func (p *IDPool) add(s string) {
	if s == "" {
		return
	}
	p.mu.Lock()
	defer p.mu.Unlock()
	for _, x := range p.ids {
		if x == s {
			return
		}
	}
	if len(p.ids) < 64 {
		p.ids = append(p.ids, s)
	}
}

func (p *IDPool) Harvest(m protoreflect.Message, depth int) {
	if depth > 3 {
		return
	}
	m.Range(func(fd protoreflect.FieldDescriptor, v protoreflect.Value) bool {
		switch {
		case fd.Kind() == protoreflect.StringKind && !fd.IsList() && !fd.IsMap():
			n := string(fd.Name())
			if n == "id" || strings.HasSuffix(n, "_id") || n == "name" || n == "consumable" || n == "version" {
				if s := v.String(); s != "" {
					p.add(s)
				}
			}
		case fd.IsMap() && fd.MapKey().Kind() == protoreflect.StringKind:
			// names used as map keys (and string map values) are ids too: mode names and their values, ...
			add := p.add
			n := 0
			v.Map().Range(func(k protoreflect.MapKey, mv protoreflect.Value) bool {
				add(k.String())
				if fd.MapValue().Kind() == protoreflect.StringKind {
					add(mv.String())
				}
				n++
				return n < 4
			})
		case fd.Message() != nil && fd.IsList():
			l := v.List()
			for i := 0; i < l.Len() && i < 4; i++ {
				p.Harvest(l.Get(i).Message(), depth+1)
			}
		case fd.Message() != nil && !fd.IsMap():
			p.Harvest(v.Message(), depth+1)
		}
		return true
	})
}

func (p *IDPool) Apply(rng *vk.Rand, m protoreflect.Message, depth int) {
	if depth > 3 {
		return
	}
	p.mu.Lock()
	ids := append([]string{}, p.ids...)
	p.mu.Unlock()
	fds := m.Descriptor().Fields()
	for i := 0; i < fds.Len(); i++ {
		fd := fds.Get(i)
		n := string(fd.Name())
		switch {
		case fd.Kind() == protoreflect.StringKind && !fd.IsList() && !fd.IsMap() && (n == "id" || strings.HasSuffix(n, "_id") || n == "consumable" || n == "version"):
			if len(ids) > 0 && rng.Chance(3, 4) {
				m.Set(fd, protoreflect.ValueOfString(ids[rng.Intn(len(ids))]))
			}
		case n == "name" && fd.Kind() == protoreflect.StringKind && depth == 0:
			m.Set(fd, protoreflect.ValueOfString("dev"))
		case n == "name" && fd.Kind() == protoreflect.StringKind && !fd.IsList() && !fd.IsMap():
			// nested names refer to things the server described earlier (presets, modes, ...)
			if len(ids) > 0 && rng.Chance(3, 4) {
				m.Set(fd, protoreflect.ValueOfString(ids[rng.Intn(len(ids))]))
			}
		case n == "update_mask" || n == "read_mask":
			// mostly unmasked requests; a third carry a valid mask of 1-2 (often nested) paths of the message the request
			// reads or writes, so that masked reads and masked writes reach the models too
			m.Clear(fd)
			if p.Masks && rng.Chance(1, 3) {
				if paths := maskPathsFor(rng, m.Descriptor(), n); len(paths) > 0 {
					fm := m.Mutable(fd).Message()
					l := fm.Mutable(fm.Descriptor().Fields().ByName("paths")).List()
					for _, q := range paths {
						l.Append(protoreflect.ValueOfString(q))
					}
				}
			}
		case n == "page_size" || n == "page_token":
			m.Clear(fd)
		case fd.IsMap() && fd.MapKey().Kind() == protoreflect.StringKind && len(ids) > 0 && rng.Chance(2, 3):
			// maps keyed by names the server described earlier (mode values, relative adjustments, ...): random keys alone
			// never hit an entry the server knows
			if rng.Chance(1, 4) {
				m.Clear(fd)
			}
			mp := m.Mutable(fd).Map()
			for k := rng.Range(1, 2); k > 0; k-- {
				key := protoreflect.ValueOfString(ids[rng.Intn(len(ids))]).MapKey()
				switch fd.MapValue().Kind() {
				case protoreflect.StringKind:
					mp.Set(key, protoreflect.ValueOfString(ids[rng.Intn(len(ids))]))
				case protoreflect.Int32Kind, protoreflect.Sint32Kind, protoreflect.Sfixed32Kind:
					mp.Set(key, protoreflect.ValueOfInt32(int32(rng.Range(-2, 2))))
				}
			}
		case fd.Message() != nil && !fd.IsList() && !fd.IsMap() && m.Has(fd):
			p.Apply(rng, m.Mutable(fd).Message(), depth+1)
		}
	}
}

// LazyStream fills the request when the handler asks for it (the request type is only known then).
type LazyStream struct {
	*FakeStream
	Fill func(proto.Message)
}

func (l *LazyStream) RecvMsg(m any) error {
	if l.Took {
		<-l.Ctx.Done()
		return l.Ctx.Err()
	}
	l.Took = true
	l.Fill(m.(proto.Message))
	return nil
}
