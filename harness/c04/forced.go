package main

import (
	"context"
	"fmt"
	"strings"
	"sync"
	"time"

	"google.golang.org/protobuf/proto"

	sm "github.com/smart-core-os/sc-golang/internal/verif/seqmodel"
	"github.com/smart-core-os/sc-golang/internal/verif/vk"
	"github.com/smart-core-os/sc-golang/pkg/resource"
)

// forcedJoin: a backpressured subscriber (with seed) joins while the single writer performs one write: the
// subscriber is parked between taking its seed snapshot and registering on the bus, the write is started meanwhile,
// then the subscriber is released. Whatever the order the library serialises them in, the subscriber must end up
// with a seed plus exactly the events of the writes the seed does not contain: the write may be part of the seed
// or delivered as one event after it, never neither and never both.
func forcedJoin(r *vk.Run) {
	sched := vk.NewSched()
	defer sched.Close()
	idx := 0
	for _, isVal := range []bool{true, false} {
		ops := colOps()
		point := "col.sub.afterSnapshot"
		if isVal {
			ops = valOps()
			point = "value.sub.afterSnapshot"
		}
		for _, init := range inits(isVal) {
			for oi, g := range ops {
				for _, mask := range masks[:3] {
					for _, eq := range []bool{false} {
						idx++
						if !r.Mine(idx) {
							continue
						}
						w := newWorld(r, isVal, eq, init)
						w.trace = append(w.trace, fmt.Sprintf("forced join: isValue=%v init=%s", isVal, w.state.Render()))
						// a witness subscriber opened first tells which events the write produced
						if !w.open(subSpec{UpdatesOnly: true, Mask: mask, OpenAt: -1}) {
							w.close()
							continue
						}
						before := w.state
						park := sched.ParkAt(point, nil)
						var joined bool
						tj := vk.Go(func() { joined = w.openParkedJoin(subSpec{Mask: mask, OpenAt: 0}) })
						vk.Quiesce()
						reached := park.Arrived()
						op := g.mk(oi)
						var res sm.Result
						tw := vk.Go(func() {
							if isVal {
								res = w.model.ExecValue(w.val, op)
							} else {
								res = w.model.ExecCollection(w.col, op)
							}
						})
						vk.Quiesce()
						park.Release()
						tj.Wait()
						tw.Wait()
						if _, ok := r.MustQuiesce("c04-forced-join"); !ok {
							w.close()
							return
						}
						_ = joined
						r.Eval(1)
						r.Count("forced-join-scenarios", 1)
						if reached {
							r.Distinct(fmt.Sprintf("join|%v|%d|%s|%v", isVal, len(init), g.name, mask))
						}
						v, next := w.model.Apply(before, op, res)
						if !v.OK {
							r.Count("model-disagreement(C01 territory)", 1)
							w.close()
							continue
						}
						w.trace = append(w.trace, fmt.Sprintf("%v -> %v (while the subscriber was between snapshot and registration)", op, res.Code))
						witness, joiner := w.subs[0], w.subs[1]
						wev := witness.take()
						jev := joiner.take()
						// joiner: seeds first, then events
						var seeds, events []rev
						for _, e := range jev {
							if e.seed {
								seeds = append(seeds, e)
							} else {
								events = append(events, e)
							}
						}
						// the seed must be the listing either before or after the write
						matches := func(st sm.State) bool {
							ids := st.IDs()
							if len(ids) != len(seeds) {
								return false
							}
							for i, id := range ids {
								want := w.project(st[id].Msg, joiner.spec)
								if (!isVal && seeds[i].id != id) || !vk.SameMessage(seeds[i].new, want) {
									return false
								}
							}
							return true
						}
						seedIsBefore, seedIsAfter := matches(before), matches(next)
						wantEvents := 0
						if v.Event != nil {
							wantEvents = 1
						}
						desc := fmt.Sprintf("write produced %d event(s) for the witness %v; the joining subscriber got seeds %v and events %v", len(wev), wev, seeds, events)
						switch {
						case !seedIsBefore && !seedIsAfter:
							w.viol("join/seed-is-neither-state/"+string(op.Kind), desc, joiner)
						case wantEvents == 1 && seedIsBefore && !seedIsAfter && len(events) != 1:
							w.viol("join/write-missed/"+string(op.Kind), "the seed predates the write but its event was not delivered exactly once: "+desc, joiner)
						case wantEvents == 1 && seedIsAfter && !seedIsBefore && len(events) != 0:
							r.Count("join-duplicate-after-seed(observed, state unaffected)", 1)
						case wantEvents == 0 && len(events) != 0:
							w.viol("join/event-for-failed-write/"+string(op.Kind), desc, joiner)
						}
						if r.WantSample("forced-join") {
							r.Sample("forced-join", w.trace)
						}
						w.close()
					}
				}
			}
		}
	}
	r.Require("forced-join-scenarios", 100)
}

// forcedJoinDuringSend: a subscriber joins while the writer is in the middle of publishing (parked after taking the
// bus's listener snapshot) and while an earlier subscriber has been cancelled but not yet collected by the bus.
// Whatever bookkeeping the bus does when that publish finishes, the new subscriber must receive the NEXT write's
// event exactly once (checked by world.write against every open subscriber, the witness included).
func forcedJoinDuringSend(r *vk.Run) {
	sched := vk.NewSched()
	defer sched.Close()
	idx := 0
	for _, isVal := range []bool{true, false} {
		for _, uo := range []bool{true, false} {
			if !isVal && !uo {
				continue // a seeded Collection subscriber waits for its turn in the publish order: it cannot join mid-publish
			}
			for _, mask := range masks[:3] {
				for rep := 0; rep < 2; rep++ {
					idx++
					if !r.Mine(idx) {
						continue
					}
					init := inits(isVal)[1]
					w := newWorld(r, isVal, false, init)
					w.trace = append(w.trace, fmt.Sprintf("forced join during send: isValue=%v init=%s", isVal, w.state.Render()))
					first, second := sm.Op{Kind: sm.Set, Val: val(11, "one")}, sm.Op{Kind: sm.Set, Val: val(12, "two")}
					if !isVal {
						first = sm.Op{Kind: sm.Update, ID: "a", Val: val(11, "one")}
						second = sm.Op{Kind: sm.Update, ID: "a", Val: val(12, "two")}
					}
					if !w.open(subSpec{UpdatesOnly: true, Mask: mask, OpenAt: -2}) { // the witness
						w.close()
						continue
					}
					gone := w.subscribe(subSpec{UpdatesOnly: true, OpenAt: -1})
					if _, ok := r.MustQuiesce("c04-send-join-open"); !ok {
						w.close()
						return
					}
					gone.cancel()
					// the cancelled subscriber is no longer judged
					w.smu.Lock()
					w.subs = w.subs[:1]
					w.smu.Unlock()
					if _, ok := r.MustQuiesce("c04-send-join-cancel"); !ok {
						w.close()
						return
					}
					park := sched.ParkAt("bus.send.afterSnapshot", nil)
					before := w.state
					var res sm.Result
					tw := vk.Go(func() {
						if isVal {
							res = w.model.ExecValue(w.val, first)
						} else {
							res = w.model.ExecCollection(w.col, first)
						}
					})
					vk.Quiesce()
					reached := park.Arrived()
					joiner := subSpec{UpdatesOnly: uo, Mask: mask, OpenAt: 0}
					tj := vk.Go(func() { w.subscribe(joiner) })
					vk.Quiesce()
					park.Release()
					tw.Wait()
					tj.Wait()
					if _, ok := r.MustQuiesce("c04-send-join"); !ok {
						w.close()
						return
					}
					r.Eval(1)
					r.Count("forced-join-during-send-scenarios", 1)
					if reached {
						r.Distinct(fmt.Sprintf("sendjoin|%v|%v|%v", isVal, uo, mask))
					} else {
						r.Count("forced-window-not-reached", 1)
					}
					v, next := w.model.Apply(before, first, res)
					if v.OK && len(w.subs) == 2 {
						w.state = next
						w.trace = append(w.trace, fmt.Sprintf("%v -> %v (a subscriber joined while this write was publishing)", first, res.Code))
						// what each subscriber saw of the first write (the joiner: its seed, or the event, or nothing) is the
						// subject of forcedJoin; here it only has to be consumed and remembered as the value it holds
						for _, s := range w.subs {
							for _, e := range s.take() {
								s.last, s.held = e.new, true
							}
						}
						w.trace = append(w.trace, "second write, after the publish finished")
						w.write(second)
					}
					if r.WantSample("forced-join-during-send") {
						r.Sample("forced-join-during-send", w.trace)
					}
					w.close()
				}
			}
		}
	}
	r.Require("forced-join-during-send-scenarios", 10)
}

// leaverMidSeed: a seeded backpressured subscriber goes away while it is still being offered its initial items
// (it took 0, 1 or 2 of 3). The next write must go through as if it had never been there: it returns, and the
// remaining subscriber gets exactly one event for it.
func leaverMidSeed(r *vk.Run) {
	idx := 0
	for _, isVal := range []bool{false, true} {
		for taken := 0; taken <= 2; taken++ {
			for _, when := range []string{"cancel-then-write", "write-then-cancel"} {
				idx++
				if !r.Mine(idx) || (isVal && taken > 0) {
					continue
				}
				init := inits(isVal)[len(inits(isVal))-1]
				w := newWorld(r, isVal, false, init)
				w.trace = append(w.trace, fmt.Sprintf("leaver mid-seed: isValue=%v init=%s, %d seed(s) taken, %s", isVal, w.state.Render(), taken, when))
				if !w.open(subSpec{UpdatesOnly: true, OpenAt: -1}) { // the witness
					w.close()
					continue
				}
				ctx, cancel := context.WithCancel(context.Background())
				if isVal {
					ch := w.val.Pull(ctx, resource.WithBackpressure(true))
					for k := 0; k < taken; k++ {
						<-ch
					}
				} else {
					ch := w.col.Pull(ctx, resource.WithBackpressure(true))
					for k := 0; k < taken; k++ {
						<-ch
					}
				}
				vk.Quiesce()
				op := sm.Op{Kind: sm.Set, Val: val(21, "after-leaver")}
				if !isVal {
					op = sm.Op{Kind: sm.Update, ID: "a", Val: val(21, "after-leaver")}
				}
				// the write runs on its own goroutine through the model's executor (world.write would wait for quiescence
				// itself); what the witness received is checked by hand afterwards
				before := w.state
				var res sm.Result
				exec := func() {
					if isVal {
						res = w.model.ExecValue(w.val, op)
					} else {
						res = w.model.ExecCollection(w.col, op)
					}
				}
				var t *vk.Task
				if when == "cancel-then-write" {
					cancel()
					vk.Quiesce()
					t = vk.Go(exec)
				} else {
					t = vk.Go(exec)
					vk.Quiesce()
					cancel()
				}
				vk.Quiesce()
				r.Eval(1)
				r.Count("leaver-mid-seed-scenarios", 1)
				r.Distinct(fmt.Sprintf("leaver|%v|%d|%s", isVal, taken, when))
				if !t.Done() {
					w.viol("count/write-stuck-behind-a-subscriber-that-left", fmt.Sprintf("%v has not returned at the quiescent point: a seeded backpressured subscriber that had taken %d of its initial items was cancelled (%s)\n%s", op, taken, when, vk.DescribeGs(vk.LibraryGoroutines(vk.Goroutines(), nil))), nil)
					cancel()
					return // the writer stays blocked: later quiescence checks of this worker would be disturbed
				}
				if v, next := w.model.Apply(before, op, res); v.OK {
					w.state = next
					got := w.subs[0].take()
					if len(got) != 1 || !vk.SameMessage(got[0].new, op.Val) {
						w.viol("count/after-a-subscriber-left-mid-seed", fmt.Sprintf("%v succeeded; the remaining subscriber received %v, want exactly one event carrying the written value", op, got), w.subs[0])
					}
				}
				cancel()
				w.close()
			}
		}
	}
	r.Require("leaver-mid-seed-scenarios", 3)
}

// joinAfterUnpublishedCommits: two writers have COMMITTED (an update of a, then the delete of a) but neither event
// is published yet (the first writer is parked between commit and publication, the second waits for its turn behind
// it); now a seeded subscriber joins. Its seed is the committed state (empty, or just the bystander item c), so
// none of the two pending events is for it: after the seed it gets exactly one event per LATER write, here the
// ADD of b. Collections that are empty at the snapshot are the case of interest.
func joinAfterUnpublishedCommits(r *vk.Run) {
	sched := vk.NewSched()
	defer sched.Close()
	idx := 0
	for _, bystander := range []bool{false, true} {
		for _, bp := range []bool{true, false} {
			for _, pullID := range []bool{false, true} {
				idx++
				if !r.Mine(idx) {
					continue
				}
				opts := []resource.Option{resource.WithInitialRecord("a", val(1, "a0"))}
				if bystander {
					opts = append(opts, resource.WithInitialRecord("c", val(3, "c0")))
				}
				col := resource.NewCollection(opts...)
				ctx, cancel := context.WithCancel(context.Background())
				park := sched.ParkAt("col.update.beforePublish", nil)
				t1 := vk.Go(func() { col.Update("a", val(2, "a1")) })
				vk.Quiesce()
				reached := park.Arrived()
				t2 := vk.Go(func() { col.Delete("a") })
				vk.Quiesce()
				var mu sync.Mutex
				var got []string
				if pullID {
					ch := col.PullID(ctx, "b", resource.WithBackpressure(bp))
					go func() {
						for e := range ch {
							mu.Lock()
							got = append(got, fmt.Sprintf("VALUE %s", vk.JSON(e.Value)))
							mu.Unlock()
						}
					}()
				} else {
					ch := col.Pull(ctx, resource.WithBackpressure(bp))
					go func() {
						for e := range ch {
							mu.Lock()
							got = append(got, fmt.Sprintf("%s %s", e.ChangeType, e.Id))
							mu.Unlock()
						}
					}()
				}
				vk.Quiesce()
				park.Release()
				vk.Quiesce()
				t3 := vk.Go(func() { col.Add("b", val(4, "b0")) })
				gs, ok := r.MustQuiesce("c04-join-unpublished")
				if !ok {
					cancel()
					return
				}
				r.Eval(1)
				r.Count("join-after-unpublished-commits-scenarios", 1)
				if reached {
					r.Distinct(fmt.Sprintf("joinunpub|%v|%v|%v", bystander, bp, pullID))
				}
				mode := map[bool]string{true: "bp", false: "lossy"}[bp]
				kind := map[bool]string{true: "pullid", false: "pull"}[pullID]
				key := "C04/join/after-unpublished-commits/" + kind + "/" + mode
				replay := map[string]any{"bystander": bystander, "bp": bp, "pullID": pullID}
				desc := fmt.Sprintf("collection {a%s}: Update(a) committed and parked before publishing, Delete(a) committed and queued behind it, then a seeded %s subscriber (%s) joins, the writers are released, Add(b) follows", map[bool]string{true: ", c", false: ""}[bystander], kind, mode)
				if !t1.Done() || !t2.Done() || !t3.Done() {
					r.Violation(key+"/writer-stuck", fmt.Sprintf("%s: a writer has not returned at the quiescent point\n%s", desc, vk.DescribeGs(vk.LibraryGoroutines(gs, nil))), replay)
					cancel()
					return
				}
				var want []string
				switch {
				case pullID:
					want = []string{"VALUE " + vk.JSON(val(4, "b0"))}
				case bystander:
					want = []string{"ADD c", "ADD b"}
				default:
					want = []string{"ADD b"}
				}
				mu.Lock()
				have := append([]string{}, got...)
				mu.Unlock()
				if strings.Join(have, "; ") != strings.Join(want, "; ") {
					r.Violation(key, fmt.Sprintf("%s: the subscriber received [%s], want [%s] (its seed is the committed state, the two pending events predate it)", desc, strings.Join(have, "; "), strings.Join(want, "; ")), replay)
				}
				cancel()
				vk.Quiesce()
			}
		}
	}
	r.Require("join-after-unpublished-commits-scenarios", 2)
}

type rawEv struct {
	Typ        string
	ID         string
	Old, New   string
	Time       int64
	Seed, Last bool
}

func (e rawEv) String() string {
	s := fmt.Sprintf("%s %s old=%s new=%s t=%d", e.Typ, e.ID, e.Old, e.New, e.Time)
	if e.Seed {
		s += " seed"
	}
	if e.Last {
		s += " last-seed"
	}
	return s
}

func rawOf(c *resource.CollectionChange) rawEv {
	j := func(m proto.Message) string {
		if m == nil || !m.ProtoReflect().IsValid() {
			return "-"
		}
		return vk.JSON(m)
	}
	return rawEv{Typ: c.ChangeType.String(), ID: c.Id, Old: j(c.OldValue), New: j(c.NewValue), Time: c.ChangeTime.Unix(), Seed: c.SeedValue, Last: c.LastSeedValue}
}

func renderRaw(es []rawEv) string {
	var ss []string
	for _, e := range es {
		ss = append(ss, "    "+e.String())
	}
	return strings.Join(ss, "\n")
}

// pausedReader: a backpressured collection subscriber (seeded or updates-only) stops receiving for a while - after k
// of its seeds, or right away - while one writer performs a fixed script, one write at a time, every write with its
// own write time (one of them writes back an equal value with a later time). With backpressure nothing may be dropped
// or merged however long the reader pauses: once it receives again it gets the remaining seeds exactly as they were
// stored when it subscribed (value and change time), then exactly one event per write, in write order, each with its
// kind, old value, new value and write time.
func pausedReader(r *vk.Run) {
	at := func(n int64) time.Time { return time.Unix(1000*n, 0) }
	idx := 0
	for _, uo := range []bool{false, true} {
		for variant := 0; variant <= 4; variant++ {
			if uo && variant > 0 {
				continue
			}
			idx++
			if !r.Mine(idx) {
				continue
			}
			// the last variant pauses for longer than any send timeout of the library (6.5 s of real time; the verdict is
			// still the edit script): with backpressure a collection writer waits as long as it takes
			taken, longPause := variant, variant == 4
			if longPause {
				taken = 1
			}
			col := resource.NewCollection()
			for _, id := range []string{"a", "b", "c", "d"} {
				col.Add(id, val(1, id+"0"), resource.WithWriteTime(at(1)))
			}
			ctx, cancel := context.WithCancel(context.Background())
			ch := col.Pull(ctx, resource.WithBackpressure(true), resource.WithUpdatesOnly(uo))
			var got []rawEv
			for k := 0; k < taken; k++ {
				got = append(got, rawOf(<-ch))
			}
			vk.Quiesce()
			type wr struct {
				do   func()
				want rawEv
			}
			j := func(m proto.Message) string { return vk.JSON(m) }
			script := []wr{
				{func() { col.Update("d", val(1, "d0"), resource.WithWriteTime(at(2))) }, rawEv{Typ: "UPDATE", ID: "d", Old: j(val(1, "d0")), New: j(val(1, "d0")), Time: 2000}},
				{func() { col.Add("e", val(2, "e0"), resource.WithWriteTime(at(3))) }, rawEv{Typ: "ADD", ID: "e", Old: "-", New: j(val(2, "e0")), Time: 3000}},
				{func() { col.Update("e", val(3, "e1"), resource.WithWriteTime(at(4))) }, rawEv{Typ: "UPDATE", ID: "e", Old: j(val(2, "e0")), New: j(val(3, "e1")), Time: 4000}},
				{func() { col.Update("e", val(4, "e2"), resource.WithWriteTime(at(5))) }, rawEv{Typ: "UPDATE", ID: "e", Old: j(val(3, "e1")), New: j(val(4, "e2")), Time: 5000}},
				{func() { col.Delete("a", resource.WithWriteTime(at(6))) }, rawEv{Typ: "REMOVE", ID: "a", Old: j(val(1, "a0")), New: "-", Time: 6000}},
				{func() { col.Add("f", val(5, "f0"), resource.WithWriteTime(at(7))) }, rawEv{Typ: "ADD", ID: "f", Old: "-", New: j(val(5, "f0")), Time: 7000}},
			}
			tw := vk.Go(func() {
				for _, w := range script {
					w.do()
				}
			})
			if _, ok := r.MustQuiesce("c04-paused-reader"); !ok {
				cancel()
				return
			}
			writerWaited := !tw.Done()
			if longPause {
				time.Sleep(6500 * time.Millisecond)
				r.Count("paused-reader/long-pause", 1)
			}
			// the reader resumes
			done := make(chan struct{})
			var mu sync.Mutex
			go func() {
				defer close(done)
				for c := range ch {
					mu.Lock()
					got = append(got, rawOf(c))
					mu.Unlock()
				}
			}()
			gs, ok := r.MustQuiesce("c04-paused-reader-resume")
			if !ok {
				cancel()
				return
			}
			r.Eval(1)
			r.Count("paused-reader-scenarios", 1)
			r.Distinct(fmt.Sprintf("paused|%v|%d|%v", uo, taken, longPause))
			mode := map[bool]string{true: "updates-only", false: "seeded"}[uo]
			key := "C04/paused-reader/" + mode
			replay := map[string]any{"updatesOnly": uo, "seedsTakenBeforeThePause": taken, "longPause": longPause}
			desc := fmt.Sprintf("collection {a,b,c,d} stored at t=1000; a backpressured %s subscriber takes %d event(s) and pauses; one writer: Update(d, equal value, t=2000), Add(e, t=3000), Update(e, t=4000), Update(e, t=5000), Delete(a, t=6000), Add(f, t=7000); then the reader resumes", mode, taken)
			if !tw.Done() {
				r.Violation(key+"/writer-stuck", fmt.Sprintf("%s: the writer has not returned at the quiescent point after the reader resumed\n%s", desc, vk.DescribeGs(vk.LibraryGoroutines(gs, nil))), replay)
				cancel()
				return
			}
			if !writerWaited {
				r.Count("paused-reader/writer-did-not-wait(observed)", 1)
			}
			var want []rawEv
			if !uo {
				for i, id := range []string{"a", "b", "c", "d"} {
					want = append(want, rawEv{Typ: "ADD", ID: id, Old: "-", New: j(val(1, id+"0")), Time: 1000, Seed: true, Last: i == 3})
				}
			}
			for _, w := range script {
				want = append(want, w.want)
			}
			mu.Lock()
			have := append([]rawEv{}, got...)
			mu.Unlock()
			bad := ""
			if len(have) != len(want) {
				bad = fmt.Sprintf("%d events received, want %d", len(have), len(want))
			}
			for i := 0; bad == "" && i < len(want); i++ {
				if have[i] != want[i] {
					bad = fmt.Sprintf("event #%d is {%s}, want {%s}", i, have[i], want[i])
				}
			}
			if bad != "" {
				r.Violation(key, fmt.Sprintf("%s: %s\nreceived:\n%s", desc, bad, renderRaw(have)), replay)
			}
			cancel()
			<-done
			vk.Quiesce()
		}
	}
	r.Require("paused-reader-scenarios", 2)
}
