// Monitor for C04: with backpressure the stream is an exact, ordered edit script.
//
// One writer at a time drives a Value / Collection through generated histories (successful and failing writes,
// with and without WithWriteTime). Backpressured subscribers with every option combination (updates-only, read
// mask, equivalence on/off) are opened at every point of the history. After every write the process is brought
// to quiescence and what each subscriber received is compared online with the writer's log (the sequential
// model of C01): count, order, id, kind, new value, old value, change time, seed flags and seed order.
package main

import (
	"context"
	"fmt"
	"sort"
	"strings"
	"sync"
	"time"

	"google.golang.org/grpc/codes"
	"google.golang.org/protobuf/proto"
	"google.golang.org/protobuf/types/known/fieldmaskpb"

	"github.com/smart-core-os/sc-golang/internal/testproto"
	sm "github.com/smart-core-os/sc-golang/internal/verif/seqmodel"
	"github.com/smart-core-os/sc-golang/internal/verif/vk"
	"github.com/smart-core-os/sc-golang/pkg/resource"
)

func main() { vk.Main("C04", run) }

type tat = testproto.TestAllTypes

// counting fake clock: every reading is unique, so a reported time identifies the reading it came from
type fclock struct {
	mu sync.Mutex
	n  int64
}

func (c *fclock) Now() time.Time {
	c.mu.Lock()
	defer c.mu.Unlock()
	c.n++
	return time.Unix(2000, c.n)
}

func (c *fclock) peek() int64 { c.mu.Lock(); defer c.mu.Unlock(); return c.n }

func tOf(t time.Time) int64 { return t.UnixNano() - time.Unix(2000, 0).UnixNano() }

// equivalences used when configured: two messages are equivalent iff both are present and agree on default_int32
// (exact, an equivalence relation) or differ by at most 1 there (a tolerance: reflexive and symmetric, NOT transitive,
// like the float tolerances the trait models configure). With a tolerance it matters which value a write is compared
// with: the one the subscriber holds (last emitted to it).
func equiv(x, y proto.Message) bool { return equivTol(x, y, 0) }

func equivTol(x, y proto.Message, tol int32) bool {
	a, _ := x.(*tat)
	b, _ := y.(*tat)
	if a == nil || b == nil {
		return false
	}
	d := a.DefaultInt32 - b.DefaultInt32
	if d < 0 {
		d = -d
	}
	return d <= tol
}

func (w *world) equiv(x, y proto.Message) bool { return equivTol(x, y, w.tol) }

type subSpec struct {
	UpdatesOnly bool     `json:"updatesOnly"`
	Mask        []string `json:"mask"` // nil = none
	OpenAt      int      `json:"openAt"`
}

func (s subSpec) String() string {
	return fmt.Sprintf("sub(updatesOnly=%v mask=%v openAt=%d)", s.UpdatesOnly, s.Mask, s.OpenAt)
}

type bracket struct{ lo, hi int64 } // clock readings (exclusive lo, inclusive hi); lo==hi: exact

type rev struct {
	id       string
	typ      string
	old, new proto.Message
	t        int64
	seed     bool
	lastSeed bool
}

func (e rev) String() string {
	return fmt.Sprintf("{%s %s old=%s new=%s t=%d seed=%v last=%v}", e.typ, e.id, vk.JSON(e.old), vk.JSON(e.new), e.t, e.seed, e.lastSeed)
}

type subscriber struct {
	spec   subSpec
	cancel context.CancelFunc
	mu     sync.Mutex
	got    []rev
	closed bool
	// expectations
	seen int
	last proto.Message // value the subscriber holds (Value streams, for equivalence)
	held bool
	// Collection streams with an equivalence: per id the value the subscriber holds (last sent to it)
	heldBy map[string]proto.Message
}

func (s *subscriber) take() []rev {
	s.mu.Lock()
	defer s.mu.Unlock()
	out := append([]rev{}, s.got[s.seen:]...)
	s.seen = len(s.got)
	return out
}

type world struct {
	r      *vk.Run
	model  *sm.Model
	val    *resource.Value
	col    *resource.Collection
	clock  *fclock
	state  sm.State
	times  map[string]bracket // stored change time of each item
	eq     bool
	tol    int32 // tolerance of the equivalence (0: exact)
	smu    sync.Mutex
	subs   []*subscriber
	trace  []string
	isVal  bool
	failed bool
}

func info() sm.TypeInfo {
	return sm.TypeInfo{
		Zero: &tat{},
		Check: func(cur proto.Message) bool {
			m, ok := cur.(*tat)
			return ok && m != nil && m.DefaultInt32%2 == 1
		},
	}
}

func newWorld(r *vk.Run, isVal bool, eq bool, init map[string]*tat) *world {
	return newWorldTol(r, isVal, eq, 0, init)
}

func newWorldTol(r *vk.Run, isVal bool, eq bool, tol int32, init map[string]*tat, lowerIDs ...bool) *world {
	w := &world{r: r, isVal: isVal, eq: eq, tol: tol, clock: &fclock{}, state: sm.State{}, times: map[string]bracket{}}
	w.model = &sm.Model{Cfg: sm.Config{IsValue: isVal, NilWritable: true, LowerIDs: !isVal && len(lowerIDs) > 0 && lowerIDs[0]}, Type: info()}
	// (with LowerIDs the collection folds the case of ids: callers may name an item in any spelling, events and the
	// listing carry the canonical one)
	opts := append(w.model.ResourceOptions(), resource.WithClock(w.clock))
	if eq {
		opts = append(opts, resource.WithEquivalence(resource.ComparerFunc(w.equiv)))
	}
	ids := make([]string, 0, len(init))
	for id := range init {
		ids = append(ids, id)
	}
	sort.Strings(ids)
	for _, id := range ids {
		w.state[id] = sm.Item{Msg: proto.Clone(init[id])}
		if isVal {
			opts = append(opts, resource.WithInitialValue(proto.Clone(init[id])))
		} else {
			opts = append(opts, resource.WithInitialRecord(id, proto.Clone(init[id])))
		}
	}
	lo := w.clock.peek()
	if isVal {
		w.val = resource.NewValue(opts...)
	} else {
		w.col = resource.NewCollection(opts...)
	}
	hi := w.clock.peek()
	for _, id := range ids {
		w.times[id] = bracket{lo, hi}
	}
	if isVal && len(ids) == 0 {
		w.times[""] = bracket{lo, hi}
	}
	return w
}

func (w *world) readOpts(s subSpec) []resource.ReadOption {
	ro := []resource.ReadOption{resource.WithBackpressure(true), resource.WithUpdatesOnly(s.UpdatesOnly)}
	if s.Mask != nil {
		ro = append(ro, resource.WithReadMask(&fieldmaskpb.FieldMask{Paths: append([]string{}, s.Mask...)}))
	}
	return ro
}

func (w *world) project(m proto.Message, s subSpec) proto.Message {
	if m == nil || s.Mask == nil {
		return m
	}
	return vk.RefProject(m, s.Mask, false)
}

func (w *world) viol(clause, detail string, s *subscriber) {
	res := "collection"
	if w.isVal {
		res = "value"
	}
	opt := "plain"
	if s != nil {
		var p []string
		if s.spec.UpdatesOnly {
			p = append(p, "updatesOnly")
		}
		if s.spec.Mask != nil {
			p = append(p, "mask")
		}
		if w.eq {
			p = append(p, "equivalence")
		}
		if len(p) > 0 {
			opt = strings.Join(p, "+")
		}
	}
	w.failed = true
	w.r.Violation(fmt.Sprintf("C04/%s/%s/%s", clause, res, opt), fmt.Sprintf("%s\nsubscriber: %v equivalence=%v tolerance=%d\ntrace:\n%s", detail, specOf(s), w.eq, w.tol, strings.Join(w.trace, "\n")), map[string]any{"trace": w.trace})
}

func specOf(s *subscriber) string {
	if s == nil {
		return "-"
	}
	return s.spec.String()
}

// openParkedJoin subscribes without judging the seed (used while the subscribe call itself is parked inside the library).
func (w *world) openParkedJoin(spec subSpec) bool {
	w.subscribe(spec)
	return true
}

// open subscribes and checks the seed.
func (w *world) open(spec subSpec) bool {
	s := w.subscribe(spec)
	return w.checkSeed(s)
}

func (w *world) subscribe(spec subSpec) *subscriber {
	ctx, cancel := context.WithCancel(context.Background())
	s := &subscriber{spec: spec, cancel: cancel}
	if w.isVal {
		ch := w.val.Pull(ctx, w.readOpts(spec)...)
		go func() {
			for e := range ch {
				s.mu.Lock()
				s.got = append(s.got, rev{typ: "VALUE", new: e.Value, t: tOf(e.ChangeTime), seed: e.SeedValue, lastSeed: e.LastSeedValue})
				s.mu.Unlock()
			}
			s.mu.Lock()
			s.closed = true
			s.mu.Unlock()
		}()
	} else {
		ch := w.col.Pull(ctx, w.readOpts(spec)...)
		go func() {
			for e := range ch {
				s.mu.Lock()
				s.got = append(s.got, rev{id: e.Id, typ: e.ChangeType.String(), old: e.OldValue, new: e.NewValue, t: tOf(e.ChangeTime), seed: e.SeedValue, lastSeed: e.LastSeedValue})
				s.mu.Unlock()
			}
			s.mu.Lock()
			s.closed = true
			s.mu.Unlock()
		}()
	}
	w.smu.Lock()
	w.subs = append(w.subs, s)
	w.smu.Unlock()
	return s
}

func (w *world) checkSeed(s *subscriber) bool {
	spec := s.spec
	w.trace = append(w.trace, "open "+spec.String())
	if _, ok := w.r.MustQuiesce("c04-open"); !ok {
		return false
	}
	got := s.take()
	w.r.Eval(1)
	// expected seed
	var want []rev
	if !spec.UpdatesOnly {
		for _, id := range w.state.IDs() {
			want = append(want, rev{id: id, typ: "ADD", new: w.project(w.state[id].Msg, spec), seed: true})
		}
		if w.isVal {
			for i := range want {
				want[i].typ, want[i].id = "VALUE", ""
			}
		}
		if len(want) > 0 {
			want[len(want)-1].lastSeed = true
		}
	}
	if len(got) != len(want) {
		clause := "seed-count"
		if spec.UpdatesOnly {
			clause = "seed-on-updates-only"
		}
		w.viol(clause, fmt.Sprintf("seed has %d events %v, want %d", len(got), got, len(want)), s)
		return false
	}
	for i := range want {
		g, x := got[i], want[i]
		switch {
		case g.id != x.id:
			w.viol("seed-order", fmt.Sprintf("seed #%d is for id %q, want %q (sorted by id): %v", i, g.id, x.id, got), s)
		case !g.seed:
			w.viol("seed-flag", fmt.Sprintf("seed #%d is not flagged as seed: %v", i, g), s)
		case g.lastSeed != x.lastSeed:
			w.viol("seed-last-flag", fmt.Sprintf("seed #%d of %d has LastSeedValue=%v: %v", i, len(want), g.lastSeed, got), s)
		case g.typ != x.typ && !w.isVal:
			w.viol("seed-kind", fmt.Sprintf("seed #%d has kind %s: %v", i, g.typ, g), s)
		case !vk.SameMessage(g.new, x.new):
			w.viol("seed-value", fmt.Sprintf("seed #%d carries %s, want %s", i, vk.JSON(g.new), vk.JSON(x.new)), s)
		case g.old != nil && g.old.ProtoReflect().IsValid():
			w.viol("seed-old", fmt.Sprintf("seed #%d carries an old value %s", i, vk.JSON(g.old)), s)
		default:
			b := w.times[x.id]
			if !(g.t > b.lo && g.t <= b.hi) && !(b.lo == b.hi && g.t == b.lo) {
				w.viol("seed-time", fmt.Sprintf("seed #%d (id %q) carries change time %d, the item's stored change time lies in (%d,%d]", i, x.id, g.t, b.lo, b.hi), s)
			}
		}
		if w.failed {
			return false
		}
	}
	if w.isVal && len(want) > 0 {
		s.last, s.held = want[0].new, true
	}
	if !w.isVal && w.eq {
		if s.heldBy == nil {
			s.heldBy = map[string]proto.Message{}
		}
		for _, x := range want {
			s.heldBy[x.id] = x.new
		}
	}
	return true
}

// wt is the write time of the n-th generated write; every seventh is the zero time (an unset timestamp passed on by
// a driver): a write time like any other, it is what the event and later seeds carry.
func wt(n int64) *time.Time {
	if n%7 == 3 {
		return &time.Time{}
	}
	t := time.Unix(2000, 1_000_000+n)
	return &t
}

// write executes op, advances the model and checks what every open subscriber received.
func (w *world) write(op sm.Op) bool {
	r := w.r
	lo := w.clock.peek()
	var res sm.Result
	if w.isVal {
		res = w.model.ExecValue(w.val, op)
	} else {
		res = w.model.ExecCollection(w.col, op)
	}
	hi := w.clock.peek()
	w.trace = append(w.trace, fmt.Sprintf("%v -> %v %s", op, res.Code, vk.JSON(res.Msg)))
	v, next := w.model.Apply(w.state, op, res)
	if !v.OK {
		// the register/map semantics are C01's subject; here the run cannot continue meaningfully
		r.Count("model-disagreement(C01 territory)", 1)
		w.failed = true
		return false
	}
	w.state = next
	if _, ok := r.MustQuiesce("c04-write"); !ok {
		return false
	}
	r.Eval(1)
	ev := v.Event
	if ev != nil {
		if ev.Type == "REMOVE" {
			delete(w.times, ev.ID)
		} else if op.Opts.WriteTime != nil {
			x := tOf(*op.Opts.WriteTime)
			w.times[ev.ID] = bracket{x, x}
		} else {
			w.times[ev.ID] = bracket{lo, hi}
		}
	}
	opClass := string(op.Kind)
	if op.Opts.WriteTime != nil {
		opClass += "+wtime"
	}
	for _, s := range w.subs {
		got := s.take()
		var want *rev
		if ev != nil {
			x := rev{id: ev.ID, typ: ev.Type, old: w.project(ev.Old, s.spec), new: w.project(ev.New, s.spec)}
			if w.isVal {
				x.typ, x.id, x.old = "VALUE", "", nil
			}
			suppressed := false
			if w.eq {
				if w.isVal {
					suppressed = s.held && w.equiv(s.last, x.new)
				} else {
					// judged against what this subscriber holds for the id; before anything was sent for the id that
					// is taken to be the previous stored value
					if s.heldBy == nil {
						s.heldBy = map[string]proto.Message{}
					}
					prev, known := s.heldBy[x.id]
					if !known {
						prev = x.old
					}
					suppressed = w.equiv(prev, x.new)
					switch {
					case suppressed && !known && !isNil(prev):
						s.heldBy[x.id] = prev
					case suppressed:
					case isNil(x.new):
						delete(s.heldBy, x.id)
					default:
						s.heldBy[x.id] = x.new
					}
				}
			}
			if !suppressed {
				want = &x
			} else {
				r.Count("suppressed-by-equivalence", 1)
			}
		}
		if res.Code != codes.OK && len(got) > 0 {
			w.viol("event-for-failed-write/"+opClass, fmt.Sprintf("%v failed with %v but the subscriber received %v", op, res.Code, got), s)
			return false
		}
		if want == nil {
			if len(got) != 0 {
				clause := "count/" + opClass
				if ev != nil {
					clause = "suppression/delivered-equivalent/" + opClass
				}
				w.viol(clause, fmt.Sprintf("after %v the subscriber received %v, want nothing", op, got), s)
				return false
			}
			continue
		}
		if len(got) != 1 {
			clause := "count/" + opClass
			if len(got) == 0 && w.eq {
				clause = "suppression/suppressed-different/" + opClass
			} else if len(got) == 0 && !w.eq {
				clause = "suppression/without-equivalence/" + opClass
			}
			w.viol(clause, fmt.Sprintf("after %v the subscriber received %d events %v, want exactly %v", op, len(got), got, *want), s)
			return false
		}
		g := got[0]
		switch {
		case g.seed || g.lastSeed:
			w.viol("seed-flag-on-update/"+opClass, fmt.Sprintf("update event flagged as seed: %v", g), s)
		case g.id != want.id:
			w.viol("id/"+opClass, fmt.Sprintf("event %v, want id %q", g, want.id), s)
		case g.typ != want.typ:
			w.viol("kind/"+opClass, fmt.Sprintf("event %v, want kind %s", g, want.typ), s)
		case !vk.SameMessage(g.new, want.new) && !(isNil(g.new) && isNil(want.new)):
			w.viol("new/"+opClass, fmt.Sprintf("event %v, want new value %s", g, vk.JSON(want.new)), s)
		case !w.isVal && !vk.SameMessage(g.old, want.old) && !(isNil(g.old) && isNil(want.old)):
			w.viol("old/"+opClass, fmt.Sprintf("event %v, want old value %s (the previous new value of that id)", g, vk.JSON(want.old)), s)
		default:
			if op.Opts.WriteTime != nil {
				if x := tOf(*op.Opts.WriteTime); g.t != x {
					w.viol("time/"+opClass, fmt.Sprintf("event %v carries change time %d, the write time given is %d", g, g.t, x), s)
				}
			} else if !(g.t > lo && g.t <= hi) {
				w.viol("time/"+opClass, fmt.Sprintf("event %v carries change time %d, outside the clock readings (%d,%d] taken during the call", g, g.t, lo, hi), s)
			}
		}
		if w.failed {
			return false
		}
		if w.isVal {
			s.last, s.held = want.new, true
		}
	}
	return true
}

func isNil(m proto.Message) bool { return m == nil || !m.ProtoReflect().IsValid() }

func (w *world) close() {
	for _, s := range w.subs {
		s.cancel()
	}
}

// ---- alphabets

func val(i32 int32, s string) *tat {
	return &tat{DefaultInt32: i32, DefaultString: s, DefaultInt64: 5}
}

type opGen struct {
	name string
	mk   func(n int) sm.Op
}

func colOps() []opGen {
	up := func(id string, v *tat, o sm.Opts) sm.Op { return sm.Op{Kind: sm.Update, ID: id, Val: v, Opts: o} }
	var out []opGen
	add := func(name string, f func(n int) sm.Op) {
		out = append(out, opGen{name, f})
		out = append(out, opGen{name + "+wtime", func(n int) sm.Op { op := f(n); op.Opts.WriteTime = wt(int64(n)); return op }})
	}
	add("add-a", func(n int) sm.Op { return sm.Op{Kind: sm.Add, ID: "a", Val: val(1, "x")} })
	add("add-b", func(n int) sm.Op { return sm.Op{Kind: sm.Add, ID: "b", Val: val(2, "y")} })
	add("update-a-diff", func(n int) sm.Op { return up("a", val(int32(3+n%2), "x"), sm.Opts{}) })
	add("update-a-equiv", func(n int) sm.Op { return up("a", val(1, fmt.Sprintf("s%d", n)), sm.Opts{}) })
	add("update-a-drift", func(n int) sm.Op { return up("a", val(int32(2+n), "x"), sm.Opts{}) })
	add("update-a-mask", func(n int) sm.Op {
		return up("a", val(7, fmt.Sprintf("m%d", n)), sm.Opts{HasUpdateMask: true, UpdateMask: []string{"default_string"}})
	})
	add("upsert-b", func(n int) sm.Op { return up("b", val(int32(4+n%3), "y"), sm.Opts{CreateIfAbsent: true}) })
	add("update-c-notfound", func(n int) sm.Op { return up("c", val(1, "z"), sm.Opts{}) })
	add("update-a-expect-fail", func(n int) sm.Op { return up("a", val(9, "q"), sm.Opts{ExpectValue: val(99, "nope")}) })
	add("update-a-check", func(n int) sm.Op { return up("a", val(9, "q"), sm.Opts{ExpectCheck: true}) })
	add("update-a-badmask", func(n int) sm.Op {
		return up("a", val(9, "q"), sm.Opts{HasUpdateMask: true, UpdateMask: []string{"bogus"}})
	})
	add("delete-a", func(n int) sm.Op { return sm.Op{Kind: sm.Delete, ID: "a"} })
	add("delete-b-allowmissing", func(n int) sm.Op { return sm.Op{Kind: sm.Delete, ID: "b", Opts: sm.Opts{AllowMissing: true}} })
	add("delete-c-notfound", func(n int) sm.Op { return sm.Op{Kind: sm.Delete, ID: "c"} })
	add("delete-a-expect-fail", func(n int) sm.Op { return sm.Op{Kind: sm.Delete, ID: "a", Opts: sm.Opts{ExpectValue: val(99, "nope")}} })
	return out
}

func valOps() []opGen {
	set := func(v *tat, o sm.Opts) sm.Op { return sm.Op{Kind: sm.Set, Val: v, Opts: o} }
	var out []opGen
	add := func(name string, f func(n int) sm.Op) {
		out = append(out, opGen{name, f})
		out = append(out, opGen{name + "+wtime", func(n int) sm.Op { op := f(n); op.Opts.WriteTime = wt(int64(n)); return op }})
	}
	add("set-diff", func(n int) sm.Op { return set(val(int32(3+n%2), "x"), sm.Opts{}) })
	add("set-equiv", func(n int) sm.Op { return set(val(1, fmt.Sprintf("s%d", n)), sm.Opts{}) })
	add("set-drift", func(n int) sm.Op { return set(val(int32(2+n), "x"), sm.Opts{}) })
	add("set-same", func(n int) sm.Op { return set(val(1, "x"), sm.Opts{}) })
	add("set-mask", func(n int) sm.Op {
		return set(val(7, fmt.Sprintf("m%d", n)), sm.Opts{HasUpdateMask: true, UpdateMask: []string{"default_string"}})
	})
	add("set-int-only", func(n int) sm.Op {
		return set(val(int32(10+n), "ignored"), sm.Opts{HasUpdateMask: true, UpdateMask: []string{"default_int32"}})
	})
	add("set-expect-fail", func(n int) sm.Op { return set(val(9, "q"), sm.Opts{ExpectValue: val(99, "nope")}) })
	add("set-check", func(n int) sm.Op { return set(val(9, "q"), sm.Opts{ExpectCheck: true}) })
	add("set-badmask", func(n int) sm.Op {
		return set(val(9, "q"), sm.Opts{HasUpdateMask: true, UpdateMask: []string{"bogus"}})
	})
	return out
}

var masks = [][]string{nil, {"default_int32"}, {"default_string"}, {"default_int32", "default_string"}, {}}

func inits(isVal bool) []map[string]*tat {
	if isVal {
		return []map[string]*tat{{}, {"": val(1, "x")}}
	}
	return []map[string]*tat{{}, {"a": val(1, "x")}, {"a": val(1, "x"), "b": val(2, "y"), "d": val(3, "w")}}
}

// runHistory executes one history with subscribers opened at every position 0..len(seq).
func runHistory(r *vk.Run, isVal, eq bool, tol int32, init map[string]*tat, seq []opGen, uo bool, mask []string, sampleKind string) {
	w := newWorldTol(r, isVal, eq, tol, init)
	defer w.close()
	w.trace = append(w.trace, fmt.Sprintf("isValue=%v equivalence=%v tolerance=%d init=%s", isVal, eq, w.tol, w.state.Render()))
	var names []string
	for i := 0; i <= len(seq); i++ {
		if !w.open(subSpec{UpdatesOnly: uo, Mask: mask, OpenAt: i}) {
			break
		}
		if i == len(seq) {
			break
		}
		names = append(names, seq[i].name)
		if !w.write(seq[i].mk(i)) {
			break
		}
	}
	r.Count("histories", 1)
	r.Distinct(fmt.Sprintf("%v|%v%d|%d|%v|%v|%s", isVal, eq, tol, len(init), uo, mask, strings.Join(names, ",")))
	if eq && tol > 0 {
		r.Count("histories-with-tolerance-equivalence", 1)
	}
	if r.WantSample(sampleKind) {
		r.Sample(sampleKind, w.trace)
	}
}

func run(r *vk.Run) {
	r.Describe("one writer at a time; histories over an alphabet of successful and failing Set/Add/Update/Delete calls (each with and without WithWriteTime) on a Value and a Collection, from initial contents {empty, one, many}, with backpressured subscribers (updates-only x read mask {none, 3 masks, empty} x equivalence on/off) opened before every step; after every step the process is quiescent and every subscriber's new events are compared with the writer's log (sequential model). Exhaustive for lengths <= 2 (thorough: <= 3), random histories of length 4 (quick) / 100 (thorough). Distinct = (resource, equivalence, initial contents, subscriber options, op-name sequence).",
		"time: the resource gets a counting fake clock; with WithWriteTime(t) the event time must equal t, otherwise it must be one of the clock readings taken during the call, and a seed must carry a reading taken during the last successful write of that item",
		"two equivalences are used: same default_int32 (an equivalence relation) and |difference of default_int32| <= 1 (a tolerance, not transitive); both are applied to what the subscriber holds for the id (the value last sent to it, read-masked; before anything was sent, the previous stored value), which is what 'suppressed consecutive equivalent values' means for a non-transitive comparer")
	forcedJoin(r)
	forcedJoinDuringSend(r)
	leaverMidSeed(r)
	joinAfterUnpublishedCommits(r)
	pausedReader(r)
	idx := 0
	for _, isVal := range []bool{false, true} {
		ops := colOps()
		if isVal {
			ops = valOps()
		}
		maxLen := r.Pick(2, 3)
		var seqs [][]opGen
		var build func(cur []opGen, n int)
		build = func(cur []opGen, n int) {
			if len(cur) > 0 {
				seqs = append(seqs, append([]opGen{}, cur...))
			}
			if len(cur) == n {
				return
			}
			for _, o := range ops {
				build(append(cur, o), n)
			}
		}
		build(nil, maxLen)
		for _, seq := range seqs {
			// subscriber options are dealt over the histories so that every pair (first op, option set) occurs
			for _, init := range inits(isVal) {
				idx++
				if !r.Mine(idx) {
					continue
				}
				rng := r.CaseRand("c04-opt", idx)
				eq := rng.Bool()
				uo := rng.Bool()
				mask := masks[rng.Intn(len(masks))]
				if len(seq) == 1 {
					// single-op histories: all option combinations
					for _, eq := range []int{0, 1, 2} {
						for _, uo := range []bool{false, true} {
							for _, mask := range masks {
								runHistory(r, isVal, eq > 0, int32(eq/2), init, seq, uo, mask, "history")
							}
						}
					}
					continue
				}
				tol := int32(0)
				if eq && rng.Bool() {
					tol = 1
				}
				runHistory(r, isVal, eq, tol, init, seq, uo, mask, "history")
				if len(seq) == 2 && strings.Contains(seq[0].name, "drift") && strings.Contains(seq[1].name, "drift") {
					// two small steps away from the initial value: always also with the tolerance
					runHistory(r, isVal, true, 1, init, seq, false, nil, "history")
				}
			}
		}
		// random longer histories
		n := r.Pick(300, 10000)
		length := r.Pick(6, 100)
		for i := 0; i < n; i++ {
			idx++
			if !r.Mine(idx) {
				continue
			}
			rng := r.CaseRand("c04-rand", idx)
			var seq []opGen
			for k := 0; k < length; k++ {
				seq = append(seq, ops[rng.Intn(len(ops))])
			}
			its := inits(isVal)
			runHistoryRandom(r, isVal, rng.Bool(), its[rng.Intn(len(its))], seq, rng)
		}
	}
	r.Require("histories", 500)
	r.Require("histories-with-tolerance-equivalence", 100)
}

// runHistoryRandom opens subscribers with random options at random positions (at most 4 alive).
func runHistoryRandom(r *vk.Run, isVal, eq bool, init map[string]*tat, seq []opGen, rng *vk.Rand) {
	tol := int32(0)
	if eq && rng.Bool() {
		tol = 1
	}
	foldCase := !isVal && rng.Chance(1, 3)
	w := newWorldTol(r, isVal, eq, tol, init, foldCase)
	defer w.close()
	w.trace = append(w.trace, fmt.Sprintf("isValue=%v equivalence=%v tolerance=%d case-folding-ids=%v init=%s", isVal, eq, w.tol, foldCase, w.state.Render()))
	if foldCase {
		r.Count("histories-with-case-folding-ids", 1)
	}
	var names []string
	for i, g := range seq {
		if len(w.subs) < 4 && (i == 0 || rng.Chance(1, 4)) {
			if !w.open(subSpec{UpdatesOnly: rng.Bool(), Mask: masks[rng.Intn(len(masks))], OpenAt: i}) {
				break
			}
		}
		names = append(names, g.name)
		op := g.mk(i)
		if foldCase && rng.Bool() {
			op.ID = strings.ToUpper(op.ID) // another spelling of the same item
		}
		if !w.write(op) {
			break
		}
		if len(w.trace) > 40 {
			w.trace = append(w.trace[:1], w.trace[len(w.trace)-30:]...)
		}
	}
	r.Count("histories", 1)
	r.Count("random-histories", 1)
	r.Distinct(fmt.Sprintf("rand|%v|%v%d|%d|%s", isVal, eq, tol, len(init), strings.Join(names, ",")))
	if tol > 0 {
		r.Count("histories-with-tolerance-equivalence", 1)
	}
	if r.WantSample("random-history") {
		r.Sample("random-history", w.trace)
	}
}
