// Monitor for C15: paged List RPCs enumerate every item exactly once.
//
// For each of the seven paged List RPCs a fresh model is filled through its public API with a generated key set,
// then (contents held fixed) the listing is walked by following next_page_token for many page sizes, directly
// on the handler (under recover) and through the generated in-process wrapper. The oracle is the harness' own
// record of what it stored (sorted byte-wise by key; newest first for waste records).
package main

import (
	"context"
	"fmt"
	"hash/fnv"
	"math"
	"sort"
	"strings"
	"sync"

	"github.com/smart-core-os/sc-golang/internal/verif/vk"
)

func main() { vk.Main("C15", run) }

// checkMaskWithoutKey adds walks whose read mask leaves the key field out. The property statement quantifies over
// contents and page sizes and leaves other request fields open; such walks get their own key suffix
// (/mask-without-key) so that they can be classified separately.
const checkMaskWithoutKey = true

func run(r *vk.Run) {
	r.Describe("cases = (RPC in {ListModes, ListHails, ListChildren, ListPublications, ListConsumables, ListInventory, ListWasteRecords}) x (collection size 0..60, 999, 1000, 1001; "+
		"waste 100..160 and 999..1001 because its constructor seeds 100 records; thorough adds random sizes 61..998) x repetitions with different generated key sets "+
		"(random valid UTF-8 keys from 7 alphabets, 40% extensions and 17% truncations of other keys, some keys invented by the model, 0-3 inserted-then-deleted keys). "+
		"Per case: one walk (follow next_page_token until empty) per page size in {0,1,2,3,7,50,1000,5000,MaxInt32,N-1,N,N+1,random} with read mask none / key / key+tag, "+
		"two walks whose page size changes from request to request, two walks with a read mask that omits the key (own key suffix /mask-without-key), a sixth of the clean walks repeated through the generated wrapper (guarded against process death), page sizes -5..-1 and random negatives (with and without a valid token), "+
		"and ~14 hostile tokens (non-base64, truncated, bit-flipped, random bytes, invalid UTF-8 key, foreign key, offset arm, unknown field; waste: non-numeric, sign only, overflow, beyond count, negative, plus-prefixed). "+
		"One evaluation = one walk or one hostile request judged. A case is distinct by (RPC, size, page size, mask class, hash of the key set) resp. (RPC, class, token/size, collection size) and non-trivial when the collection is non-empty.",
		"the collection is not modified while a walk is in progress (the harness is the only user of the model)",
		"listing order: ascending byte-wise key order for the collection backed lists (documented on Model.Modes / Collection.List), newest record first for ListWasteRecords (documented in its handler)",
		"a token counts as malformed only if no base64 variant decodes it to bytes that parse as smartcore.types.PageToken (waste: if it is not an optionally signed decimal integer); any other unissued token may be honoured or rejected but must not panic and must give a finite chain",
		"any non-nil error counts as an error status (a plain Go error becomes codes.Unknown on the wire); codes are counted, not judged",
		"pages shorter than requested are accepted as long as the chain ends within items+2 pages")

	sizes := make([]int, 0, 70)
	for n := 0; n <= 60; n++ {
		sizes = append(sizes, n)
	}
	sizes = append(sizes, 999, 1000, 1001)
	reps := r.Pick(2, 200)
	szRng := r.Rand("extra-sizes")
	idx := 0
	for rep := 0; rep < reps; rep++ {
		caseSizes := sizes
		if !r.Quick() {
			caseSizes = append([]int{}, sizes...)
			for k := 0; k < 4; k++ {
				caseSizes = append(caseSizes, szRng.Range(61, 998))
			}
		}
		for _, n := range caseSizes {
			for _, t := range targets {
				idx++
				if !r.Mine(idx) {
					continue
				}
				runCase(r, t, n, idx)
			}
		}
	}

	concurrentWalks(r)
	hailListDoesNotCollect(r)

	// minimums per repetition, about half of what a repetition yields on the unchanged tree
	need := func(counter string, perRep int) { r.Require(counter, perRep*reps) }
	need("walks", 4500)
	need("walks-multi-page", 2500)
	need("walks-exact-multiple", 900)
	need("walks-capped-at-1000", 15)
	need("walks-default-size-multi-page", 150)
	need("walks-mixed-page-sizes", 600)
	need("walks-wrapped", 450)
	need("neg-probes", 2000)
	need("tok-probes/malformed", 1900)
	need("tok-probes/decodable-honoured", 1300)
	for _, t := range targets {
		need("walks/"+t.rpc, 600)
	}
}

// scenario is one populated model together with the harness' own record of its contents.
type scenario struct {
	t       *target
	in      *inst
	ref     []item // the expected listing, in listing order
	byID    map[string]item
	byTag   map[string]item
	n       int
	setHash string
	replay  map[string]any
}

func build(r *vk.Run, t *target, rng *vk.Rand, n int) *scenario {
	in := t.newInst(rng)
	present := append([]item{}, in.pre...)
	taken := map[string]bool{}
	for _, it := range in.pre {
		taken[it.id] = true
	}
	want := n - len(in.pre)
	if want < 0 {
		want = 0
	}
	extra := 0
	if in.del != nil && want > 0 {
		extra = rng.Intn(4)
	}
	keys := genKeys(rng, want+extra, taken)
	var inserted, deleted []string
	for k, key := range keys {
		tag := fmt.Sprintf("t%d", k+1)
		id := key
		if t.canGenID && rng.Chance(1, 10) {
			id = "" // the model invents the key
		}
		actual, err := in.add(id, tag, k+1)
		if err != nil {
			r.Count("setup/add-rejected", 1)
			r.Note("setup: %s add(%q) rejected: %v", t.rpc, id, err)
			continue
		}
		if actual == "" {
			r.Inconclusive("setup/empty-generated-key/"+t.rpc, "the model returned an empty generated key")
			continue
		}
		if id == "" {
			r.Count("setup/model-generated-keys", 1)
		}
		inserted = append(inserted, actual)
		present = append(present, item{id: actual, tag: tag})
	}
	for d := 0; d < extra && len(present) > len(in.pre); d++ {
		i := len(in.pre) + rng.Intn(len(present)-len(in.pre))
		if err := in.del(present[i].id); err != nil {
			r.Inconclusive("setup/delete-failed/"+t.rpc, fmt.Sprintf("delete(%q): %v", present[i].id, err))
			continue
		}
		deleted = append(deleted, present[i].id)
		present = append(present[:i], present[i+1:]...)
		r.Count("setup/inserted-then-deleted", 1)
	}
	s := &scenario{t: t, in: in, byID: map[string]item{}, byTag: map[string]item{}}
	if t.newestFirst {
		for i := len(present) - 1; i >= 0; i-- {
			s.ref = append(s.ref, present[i])
		}
	} else {
		s.ref = append(s.ref, present...)
		sort.Slice(s.ref, func(i, j int) bool { return s.ref[i].id < s.ref[j].id })
	}
	h := fnv.New64a()
	for _, it := range s.ref {
		s.byID[it.id] = it
		if _, dup := s.byTag[it.tag]; !dup {
			s.byTag[it.tag] = it
		}
		h.Write([]byte(it.id))
		h.Write([]byte{0})
	}
	s.n = len(s.ref)
	s.setHash = fmt.Sprintf("%x", h.Sum64())
	s.replay = map[string]any{"rpc": t.rpc, "preexisting": len(in.pre), "inserted_in_order": inserted, "deleted_again": deleted}

	// cross-check of the reference (not a verdict): the model's own unpaged listing
	full := in.full()
	same := len(full) == len(s.ref)
	for i := 0; same && i < len(full); i++ {
		same = readPath(full[i].ProtoReflect(), t.keyPath) == s.ref[i].id
	}
	if same {
		r.Count("reference-agrees-with-model-listing", 1)
	} else {
		r.Count("reference-differs-from-model-listing", 1)
		r.Note("%s: the model's unpaged listing differs from the harness' record (n=%d vs %d)", t.rpc, len(full), len(s.ref))
	}
	return s
}

func effective(size int32) int {
	switch {
	case size == 0:
		return 50
	case size > 1000:
		return 1000
	}
	return int(size)
}

func pageSizes(r *vk.Run, rng *vk.Rand, n int) []int32 {
	var out []int32
	if n <= 200 {
		out = []int32{0, 1, 2, 3, 7, 50, 1000, 5000, math.MaxInt32, int32(rng.Range(1, n+2)), int32(rng.Range(4, 70))}
	} else {
		out = []int32{0, 50, 333, 999, 1000, 1001, 5000, math.MaxInt32, int32(rng.Range(100, 1100)), int32(rng.Range(20, 99))}
		if r.Quick() {
			if rng.Chance(1, 3) {
				out = append(out, 7)
			}
		} else {
			out = append(out, 7)
			if rng.Chance(1, 4) {
				out = append(out, int32(rng.Range(1, 3))) // ~n*n/size item copies: kept to a quarter of the big cases
			}
		}
	}
	for _, d := range []int{-1, 0, 1} {
		if n+d > 0 {
			out = append(out, int32(n+d))
		}
	}
	if n > 2 {
		out = append(out, int32((n+1)/2)) // two pages, the second exactly full when n is even
	}
	seen := map[int32]bool{}
	uniq := out[:0]
	for _, s := range out {
		if !seen[s] {
			seen[s] = true
			uniq = append(uniq, s)
		}
	}
	return uniq
}

type maskClass struct {
	name  string
	paths func(t *target) []string
}

var (
	maskNone   = maskClass{"none", func(t *target) []string { return nil }}
	maskKey    = maskClass{"key", func(t *target) []string { return []string{t.keyPath} }}
	maskKeyTag = maskClass{"key+tag", func(t *target) []string { return []string{t.tagPath, t.keyPath} }}
	maskTag    = maskClass{"tag-only", func(t *target) []string { return []string{t.tagPath} }}
)

func runCase(r *vk.Run, t *target, n int, idx int) {
	rng := r.CaseRand("case", idx)
	if n <= 60 {
		n += t.seeded // waste: the constructor seeds 100 records
	}
	s := build(r, t, rng, n)
	n = s.n
	if n == 0 {
		r.Count("cases-empty-collection", 1)
	}
	r.Count("cases", 1)

	var midToken string // a token issued by the server for this collection (if it has more than one item)
	for _, size := range pageSizes(r, rng, n) {
		mc := maskNone
		switch rng.Intn(7) {
		case 0:
			mc = maskKey
		case 1:
			mc = maskKeyTag
		}
		clean, w := s.checkedWalk(r, s.in.direct, []int32{size}, mc, "")
		if size == 1 && len(w.pages) > 1 {
			midToken = w.pages[rng.Intn(len(w.pages)-1)].next
		}
		if clean && rng.Chance(1, 6) {
			key := "C15/" + t.rpc + "/panic/wrapped"
			if r.Guard(key, map[string]any{"scenario": s.replay, "page_size": size, "mask": mc.name}) {
				s.checkedWalk(r, s.in.wrapped, []int32{size}, mc, "/wrapped")
				r.Unguard()
			}
		}
	}
	// the page size may change from request to request within one chain
	for k := 0; k < 2; k++ {
		pool := []int32{1, 2, 3, 7, 50, 0, 1000, 5000, int32(rng.Range(1, n+2))}
		if n > 200 {
			pool = []int32{50, 0, 333, 1000, 5000, 400, int32(rng.Range(20, 1100))}
		}
		mix := make([]int32, rng.Range(2, 4))
		for i := range mix {
			mix[i] = pool[rng.Intn(len(pool))]
		}
		s.checkedWalk(r, s.in.direct, mix, maskNone, "")
	}
	if checkMaskWithoutKey && n > 0 {
		for _, size := range []int32{int32(max(1, n/3)), 0} {
			if n > 200 && size != 0 {
				size = 400
			}
			s.checkedWalk(r, s.in.direct, []int32{size}, maskTag, "")
		}
	}
	s.negativeSizes(r, rng, midToken)
	s.hostileTokens(r, rng, midToken)
}

// walk follows next_page_token from startToken. It stops at an empty token, an error, a panic, a repeated token
// or after maxPages pages.
type walk struct {
	pages    []page
	err      error // error of the last call
	panicked string
	endless  string // non-empty: why the chain is considered endless
}

func (s *scenario) walk(call callFn, sizes []int32, mask []string, startToken string, maxPages int) walk {
	var w walk
	token := startToken
	seen := map[string]bool{}
	for {
		if len(w.pages) >= maxPages {
			w.endless = fmt.Sprintf("still a next_page_token after %d pages", len(w.pages))
			return w
		}
		req := s.in.newReq()
		fillRequest(req, sizes[len(w.pages)%len(sizes)], token, mask)
		var p page
		var err error
		if panicked, what := vk.Recover(func() {
			res, e := call(context.Background(), req)
			err = e
			if e == nil {
				p = readResponse(s.t, res)
			}
		}); panicked {
			w.panicked = what
			return w
		}
		if err != nil {
			w.err = err
			return w
		}
		w.pages = append(w.pages, p)
		if p.next == "" {
			return w
		}
		if seen[p.next] {
			w.endless = fmt.Sprintf("next_page_token of page %d was already issued earlier in the chain", len(w.pages))
			return w
		}
		seen[p.next] = true
		token = p.next
	}
}

func (w walk) lens() []int {
	out := make([]int, len(w.pages))
	for i, p := range w.pages {
		out[i] = len(p.items)
	}
	return out
}

// checkedWalk walks the whole listing with a valid page size and judges it. Returns whether it was clean.
//
// sizes holds the page size of the first, second, ... request (cycled); a walk with one size is the usual case.
func (s *scenario) checkedWalk(r *vk.Run, call callFn, sizes []int32, mc maskClass, via string) (bool, walk) {
	size := sizes[0]
	mixed := len(sizes) > 1
	t, n := s.t, s.n
	suffix := via
	if mc.name == "tag-only" {
		suffix = "/mask-without-key" + via
	}
	mask := mc.paths(t)
	w := s.walk(call, sizes, mask, "", n+2)
	r.Eval(1)
	eff := effective(size)
	desc := fmt.Sprintf("walk|%s|n=%d|size=%v|mask=%s|keys=%s|%s", t.rpc, n, sizes, mc.name, s.setHash, via)
	if n > 0 {
		r.Distinct(desc)
	} else {
		r.Count("walks-empty-collection", 1)
	}
	r.Count("walks", 1)
	r.Count("walks/"+t.rpc, 1)
	r.Count("walks-mask/"+mc.name, 1)
	r.Count("pages", len(w.pages))
	if via != "" {
		r.Count("walks-wrapped", 1)
	}
	if len(w.pages) > 1 {
		r.Count("walks-multi-page", 1)
		if size == 0 {
			r.Count("walks-default-size-multi-page", 1)
		}
	}
	if mixed {
		r.Count("walks-mixed-page-sizes", 1)
	}
	if !mixed && n > 0 && n%eff == 0 {
		r.Count("walks-exact-multiple", 1)
	}
	if !mixed && size > 1000 && n > 1000 {
		r.Count("walks-capped-at-1000", 1)
	}
	if k := len(w.pages); k > 1 && len(w.pages[k-1].items) == 0 {
		r.Count("walks-trailing-empty-page", 1)
	}
	if r.WantSample("walk/" + t.rpc) {
		r.Sample("walk/"+t.rpc, map[string]any{"rpc": t.rpc, "items": n, "page_sizes": sizes, "mask": mc.name, "page_lengths": w.lens(), "via": via})
	}

	clean := true
	report := func(clause, what string) {
		clean = false
		var first []string
		for i, it := range s.ref {
			if i >= 12 {
				first = append(first, "…")
				break
			}
			first = append(first, it.id)
		}
		detail := fmt.Sprintf("%s%s with %d items, page_size=%v (one value per request, cycled; 0 means 50, values above 1000 mean 1000), read mask %v: %s\npage lengths: %v\nfirst keys in listing order: %q",
			t.rpc, via, n, sizes, mask, what, w.lens(), first)
		r.Violation("C15/"+t.rpc+"/"+clause+suffix, detail, map[string]any{"scenario": s.replay, "page_sizes": sizes, "mask": mask, "via": via})
	}

	if w.panicked != "" {
		report("panic", "the handler panicked on a valid request: "+w.panicked)
		return false, w
	}
	if w.err != nil {
		report("walk-error", fmt.Sprintf("page %d was answered with an error: %v", len(w.pages)+1, w.err))
		return false, w
	}
	for i, p := range w.pages {
		if e := effective(sizes[i%len(sizes)]); len(p.items) > e {
			report("page-too-long", fmt.Sprintf("page %d has %d items, at most %d were requested", i+1, len(p.items), e))
			break
		}
	}
	for i, p := range w.pages {
		if int(p.total) != n {
			report("total-size", fmt.Sprintf("page %d reports total_size=%d", i+1, p.total))
			break
		}
	}
	if w.endless != "" {
		report("endless", w.endless)
		return false, w
	}

	// concatenation vs the reference listing
	var got []string
	count := map[string]int{}
	for pi, p := range w.pages {
		for _, it := range p.items {
			id := it.id
			if id == "" {
				if ref, ok := s.byTag[it.tag]; ok && it.tag != "" {
					id = ref.id
				}
			} else if ref, ok := s.byID[id]; ok && it.tag != "" && ref.tag != it.tag {
				report("item-content", fmt.Sprintf("item %q on page %d carries tag %q, stored with %q", id, pi+1, it.tag, ref.tag))
			}
			got = append(got, id)
			count[id]++
		}
	}
	var dup, missing, unknown []string
	for _, id := range got {
		if _, ok := s.byID[id]; !ok {
			unknown = append(unknown, id)
		}
	}
	for _, it := range s.ref {
		switch c := count[it.id]; {
		case c == 0:
			missing = append(missing, it.id)
		case c > 1:
			dup = append(dup, it.id)
		}
	}
	trim := func(ss []string) string {
		if len(ss) > 8 {
			return fmt.Sprintf("%q … (%d in total)", ss[:8], len(ss))
		}
		return fmt.Sprintf("%q", ss)
	}
	if len(dup) > 0 {
		report("duplicate", "returned more than once: "+trim(dup))
	}
	if len(missing) > 0 {
		report("missing", "never returned: "+trim(missing))
	}
	if len(unknown) > 0 {
		report("unknown-item", "returned but not stored (or not identifiable): "+trim(unknown))
	}
	if len(dup)+len(missing)+len(unknown) == 0 {
		for i := range got {
			if got[i] != s.ref[i].id {
				report("order", fmt.Sprintf("position %d holds %q, the listing order has %q there", i, got[i], s.ref[i].id))
				break
			}
		}
	}
	return clean, w
}

// concurrentWalks: several clients page through their own models (and two through the same model) at the same time.
// Nothing about a walk belongs to anybody else: every one of them returns its own items exactly once, in order.
func concurrentWalks(r *vk.Run) {
	rounds := r.Pick(3, 120)
	idx := 0
	for _, t := range targets {
		for round := 0; round < rounds; round++ {
			idx++
			if !r.Mine(idx) {
				continue
			}
			rng := r.CaseRand("concurrent-walks", idx)
			const clients = 6
			var scs []*scenario
			for c := 0; c < clients-1; c++ {
				n := rng.Range(5, 14)
				if n <= 60 {
					n += t.seeded
				}
				scs = append(scs, build(r, t, rng, n))
			}
			scs = append(scs, scs[0]) // the last client shares the first one's model
			type result struct {
				bad string
			}
			res := make([]result, clients)
			var wg sync.WaitGroup
			for c := 0; c < clients; c++ {
				c := c
				s := scs[c]
				size := int32(1 + c%3)
				wg.Add(1)
				go func() {
					defer wg.Done()
					for rep := 0; rep < 40 && res[c].bad == ""; rep++ {
						w := s.walk(s.in.direct, []int32{size}, nil, "", s.n+2)
						var got []string
						for _, p := range w.pages {
							for _, it := range p.items {
								got = append(got, it.id)
							}
						}
						var want []string
						for _, it := range s.ref {
							want = append(want, it.id)
						}
						switch {
						case w.panicked != "":
							res[c].bad = "panic: " + w.panicked
						case w.err != nil:
							res[c].bad = fmt.Sprintf("walk %d failed after %d pages: %v", rep, len(w.pages), w.err)
						case w.endless != "":
							res[c].bad = fmt.Sprintf("walk %d: %s", rep, w.endless)
						case strings.Join(got, "\x00") != strings.Join(want, "\x00"):
							res[c].bad = fmt.Sprintf("walk %d (page size %d) returned %d items %q, the listing has %d: %q", rep, size, len(got), got, len(want), want)
						}
					}
				}()
			}
			wg.Wait()
			r.Eval(clients)
			r.Count("concurrent-walk-rounds", 1)
			r.Distinct(fmt.Sprintf("concwalk|%s|%d", t.rpc, round%4))
			for c := range res {
				if res[c].bad != "" {
					r.Violation("C15/"+t.rpc+"/concurrent-walks", fmt.Sprintf("%d clients paging at the same time (each through its own model, the last through the first one's): client %d: %s", clients, c, trunc(res[c].bad, 1500)), map[string]any{"rpc": t.rpc, "case": idx})
					break
				}
			}
		}
	}
	r.Require("concurrent-walk-rounds", len(targets))
}

func trunc(s string, n int) string {
	if len(s) > n {
		return s[:n] + "…"
	}
	return s
}
