package main

import (
	"context"
	"fmt"
	"sort"
	"strings"
	"time"

	"github.com/smart-core-os/sc-api/go/traits"
	"google.golang.org/protobuf/types/known/timestamppb"

	"github.com/smart-core-os/sc-golang/internal/verif/vk"
	"github.com/smart-core-os/sc-golang/pkg/resource"
	"github.com/smart-core-os/sc-golang/pkg/trait/hailpb"
)

// hailListDoesNotCollect: the generic cases run the hail model with its garbage collection switched off. Here it is
// on (short keep-alive) and half of the hails arrived long ago, i.e. they are due for collection the next time a hail
// is created. Listing is not creating: while the harness only pages through ListHails the collection stays what it
// is, every walk returns all of it exactly once and total_size never changes.
func hailListDoesNotCollect(r *vk.Run) {
	for i, size := range []int32{1, 3, 5} {
		if !r.Mine(i) {
			continue
		}
		model := hailpb.NewModel(hailpb.WithKeepAlive(20 * time.Millisecond))
		srv := hailpb.NewModelServer(model)
		var want []string
		for k := 0; k < 12; k++ {
			h := &traits.Hail{Id: fmt.Sprintf("h%02d", k), Origin: &traits.Hail_Location{Name: fmt.Sprint("floor ", k)}, State: traits.Hail_CALLED}
			if k%2 == 1 {
				h.State = traits.Hail_ARRIVED
				h.ArriveTime = timestamppb.New(time.Now().Add(-time.Hour))
			}
			if _, err := model.UpdateHail(h, resource.WithCreateIfAbsent()); err != nil {
				r.Inconclusive("hail-gc/setup", "UpdateHail: "+err.Error())
				return
			}
			want = append(want, h.Id)
		}
		sort.Strings(want)
		time.Sleep(60 * time.Millisecond) // longer than the keep-alive: whatever schedules the next collection has had its time
		for walk := 0; walk < 3; walk++ {
			var got []string
			var totals []int32
			token := ""
			bad := ""
			for page := 0; page < 20; page++ {
				res, err := srv.ListHails(context.Background(), &traits.ListHailsRequest{Name: "dev", PageSize: size, PageToken: token})
				if err != nil {
					bad = "page " + fmt.Sprint(page) + ": " + err.Error()
					break
				}
				for _, h := range res.Hails {
					got = append(got, h.Id)
				}
				totals = append(totals, res.TotalSize)
				token = res.NextPageToken
				if token == "" {
					break
				}
			}
			r.Eval(1)
			r.Count("hail-gc-armed-walks", 1)
			r.Distinct(fmt.Sprintf("hailgc|%d|%d", size, walk))
			for _, t := range totals {
				if t != int32(len(want)) && bad == "" {
					bad = fmt.Sprintf("total_size over the pages: %v, the collection holds %d hails", totals, len(want))
				}
			}
			if bad == "" && strings.Join(got, ",") != strings.Join(want, ",") {
				bad = fmt.Sprintf("the pages hold %v", got)
			}
			if bad != "" {
				r.Violation("C15/ListHails/collects-while-listing", fmt.Sprintf("12 hails, half of them arrived an hour ago, keep-alive 20 ms, nothing is written while ListHails (page size %d) is followed to the end, walk %d: %s; want %v", size, walk, bad, want), map[string]any{"pageSize": size, "walk": walk})
				break
			}
		}
	}
}
