package main

import (
	"context"
	"fmt"
	"math/rand"
	"strings"

	"google.golang.org/grpc"
	"google.golang.org/protobuf/proto"
	"google.golang.org/protobuf/reflect/protoreflect"
	"google.golang.org/protobuf/types/known/fieldmaskpb"

	"github.com/smart-core-os/sc-api/go/traits"

	"github.com/smart-core-os/sc-golang/internal/verif/vk"
	"github.com/smart-core-os/sc-golang/pkg/resource"
	"github.com/smart-core-os/sc-golang/pkg/trait/electricpb"
	"github.com/smart-core-os/sc-golang/pkg/trait/hailpb"
	"github.com/smart-core-os/sc-golang/pkg/trait/parentpb"
	"github.com/smart-core-os/sc-golang/pkg/trait/publicationpb"
	"github.com/smart-core-os/sc-golang/pkg/trait/vendingpb"
	"github.com/smart-core-os/sc-golang/pkg/trait/wastepb"
)

// callFn is one List RPC with the request/response types erased.
type callFn func(ctx context.Context, req proto.Message) (proto.Message, error)

// target describes one paged List RPC of the library.
type target struct {
	rpc         string
	keyPath     string // field (mask path) holding the item's key
	tagPath     string // field (mask path) in which the harness stores a unique tag per item
	itemsField  string // repeated field of the response
	newestFirst bool   // listing order: false = ascending by key (byte-wise), true = reverse insertion order
	tokenKind   string // "resource-name" (base64 proto PageToken) or "index" (decimal index)
	canGenID    bool   // the model invents a key when none is given
	seeded      int    // number of items a fresh model already holds
	newInst     func(rng *vk.Rand) *inst
}

// inst is one freshly built model + server + wrapped client.
type inst struct {
	// pre lists the (id, tag) of items the constructor already put into the model, in insertion order.
	pre []item
	// add stores one item through the model's public API. id == "" asks the model to invent the key.
	add func(id, tag string, k int) (string, error)
	// del removes an item through the model's public API (nil: unsupported).
	del     func(id string) error
	newReq  func() proto.Message
	direct  callFn
	wrapped callFn
	// full is the model's own unpaged listing (used as a cross-check of the harness' reference only).
	full func() []proto.Message
}

type item struct{ id, tag string }

func adaptServer[Q, R proto.Message](f func(context.Context, Q) (R, error)) callFn {
	return func(ctx context.Context, req proto.Message) (proto.Message, error) {
		res, err := f(ctx, req.(Q))
		if err != nil {
			return nil, err
		}
		return res, nil
	}
}

func adaptClient[Q, R proto.Message](f func(context.Context, Q, ...grpc.CallOption) (R, error)) callFn {
	return func(ctx context.Context, req proto.Message) (proto.Message, error) {
		res, err := f(ctx, req.(Q))
		if err != nil {
			return nil, err
		}
		return res, nil
	}
}

func asMessages[T proto.Message](in []T) []proto.Message {
	out := make([]proto.Message, len(in))
	for i, m := range in {
		out[i] = m
	}
	return out
}

func tagNumber(tag string) float32 {
	var k int
	fmt.Sscanf(tag, "t%d", &k)
	return float32(k)
}

var targets = []*target{
	{
		rpc: "ListModes", keyPath: "id", tagPath: "title", itemsField: "modes", tokenKind: "resource-name", canGenID: true,
		newInst: func(rng *vk.Rand) *inst {
			model := electricpb.NewModel(electricpb.WithRNG(rand.New(rand.NewSource(rng.Int63()))))
			srv := electricpb.NewModelServer(model)
			cl := electricpb.WrapApi(srv)
			return &inst{
				add: func(id, tag string, k int) (string, error) {
					// the third mode added is the device's normal mode (at most one may be)
					m := &traits.ElectricMode{Id: id, Title: tag, Voltage: float32(k), Normal: k == 2}
					if id == "" {
						got, err := model.CreateMode(m)
						if err != nil {
							return "", err
						}
						return got.Id, nil
					}
					return id, model.AddMode(m)
				},
				del:     func(id string) error { return model.DeleteMode(id) },
				newReq:  func() proto.Message { return &traits.ListModesRequest{} },
				direct:  adaptServer(srv.ListModes),
				wrapped: adaptClient(cl.ListModes),
				full:    func() []proto.Message { return asMessages(model.Modes()) },
			}
		},
	},
	{
		rpc: "ListHails", keyPath: "id", tagPath: "origin.name", itemsField: "hails", tokenKind: "resource-name", canGenID: true,
		newInst: func(rng *vk.Rand) *inst {
			// a negative keep-alive switches the model's timer driven garbage collection off
			model := hailpb.NewModel(hailpb.WithKeepAlive(-1), resource.WithRNG(rng.Fork()))
			srv := hailpb.NewModelServer(model)
			cl := hailpb.WrapApi(srv)
			return &inst{
				add: func(id, tag string, k int) (string, error) {
					h := &traits.Hail{Id: id, Origin: &traits.Hail_Location{Name: tag}}
					if id == "" {
						got, err := model.CreateHail(h)
						if err != nil {
							return "", err
						}
						return got.Id, nil
					}
					_, err := model.UpdateHail(h, resource.WithCreateIfAbsent(), resource.WithExpectAbsent())
					return id, err
				},
				del:     func(id string) error { _, err := model.DeleteHail(id); return err },
				newReq:  func() proto.Message { return &traits.ListHailsRequest{} },
				direct:  adaptServer(srv.ListHails),
				wrapped: adaptClient(cl.ListHails),
				full:    func() []proto.Message { return asMessages(model.ListHails()) },
			}
		},
	},
	{
		rpc: "ListChildren", keyPath: "name", tagPath: "parent", itemsField: "children", tokenKind: "resource-name",
		newInst: func(rng *vk.Rand) *inst {
			// half of the instances are case-insensitive about child names (an id interceptor on the collection): the
			// collection's key order then differs from the order of the names the listing is sorted and paged by
			opts := []resource.Option{resource.WithRNG(rng.Fork())}
			folded := rng.Bool()
			seen := map[string]bool{}
			if folded {
				opts = append(opts, resource.WithIDInterceptor(strings.ToLower))
			}
			model := parentpb.NewModel(opts...)
			srv := parentpb.NewModelServer(model)
			cl := parentpb.WrapApi(srv)
			return &inst{
				add: func(id, tag string, k int) (string, error) {
					if folded {
						if seen[strings.ToLower(id)] {
							return "", fmt.Errorf("a child whose name differs only in case exists already")
						}
						seen[strings.ToLower(id)] = true
					}
					if p, what := vk.Recover(func() { model.AddChild(&traits.Child{Name: id, Parent: tag}) }); p {
						return "", fmt.Errorf("AddChild panicked: %s", what)
					}
					return id, nil
				},
				del:     func(id string) error { _, err := model.RemoveChildByName(id); return err },
				newReq:  func() proto.Message { return &traits.ListChildrenRequest{} },
				direct:  adaptServer(srv.ListChildren),
				wrapped: adaptClient(cl.ListChildren),
				full:    func() []proto.Message { return asMessages(model.ListChildren()) },
			}
		},
	},
	{
		rpc: "ListPublications", keyPath: "id", tagPath: "media_type", itemsField: "publications", tokenKind: "resource-name", canGenID: true,
		newInst: func(rng *vk.Rand) *inst {
			model := publicationpb.NewModel(resource.WithRNG(rng.Fork()))
			srv := publicationpb.NewModelServer(model)
			cl := publicationpb.WrapApi(srv)
			return &inst{
				add: func(id, tag string, k int) (string, error) {
					got, err := model.CreatePublication(&traits.Publication{Id: id, MediaType: tag, Body: []byte(tag)})
					if err != nil {
						return "", err
					}
					return got.Id, nil
				},
				del:     func(id string) error { _, err := model.DeletePublication(id); return err },
				newReq:  func() proto.Message { return &traits.ListPublicationsRequest{} },
				direct:  adaptServer(srv.ListPublications),
				wrapped: adaptClient(cl.ListPublications),
				full:    func() []proto.Message { return asMessages(model.ListPublications()) },
			}
		},
	},
	{
		rpc: "ListConsumables", keyPath: "name", tagPath: "title", itemsField: "consumables", tokenKind: "resource-name", canGenID: true,
		newInst: func(rng *vk.Rand) *inst {
			model := vendingpb.NewModel(resource.WithRNG(rng.Fork()))
			srv := vendingpb.NewModelServer(model)
			cl := vendingpb.WrapApi(srv)
			return &inst{
				add: func(id, tag string, k int) (string, error) {
					got, err := model.CreateConsumable(&traits.Consumable{Name: id, Title: tag})
					if err != nil {
						return "", err
					}
					return got.Name, nil
				},
				del:     func(id string) error { _, err := model.DeleteConsumable(id); return err },
				newReq:  func() proto.Message { return &traits.ListConsumablesRequest{} },
				direct:  adaptServer(srv.ListConsumables),
				wrapped: adaptClient(cl.ListConsumables),
				full:    func() []proto.Message { return asMessages(model.ListConsumables()) },
			}
		},
	},
	{
		rpc: "ListInventory", keyPath: "consumable", tagPath: "remaining.amount", itemsField: "inventory", tokenKind: "resource-name", canGenID: true,
		newInst: func(rng *vk.Rand) *inst {
			model := vendingpb.NewModel(resource.WithRNG(rng.Fork()))
			srv := vendingpb.NewModelServer(model)
			cl := vendingpb.WrapApi(srv)
			return &inst{
				add: func(id, tag string, k int) (string, error) {
					got, err := model.CreateStock(&traits.Consumable_Stock{Consumable: id, Remaining: &traits.Consumable_Quantity{Amount: tagNumber(tag)}})
					if err != nil {
						return "", err
					}
					return got.Consumable, nil
				},
				del:     func(id string) error { _, err := model.DeleteStock(id); return err },
				newReq:  func() proto.Message { return &traits.ListInventoryRequest{} },
				direct:  adaptServer(srv.ListInventory),
				wrapped: adaptClient(cl.ListInventory),
				full:    func() []proto.Message { return asMessages(model.ListInventory()) },
			}
		},
	},
	{
		rpc: "ListWasteRecords", keyPath: "id", tagPath: "area", itemsField: "wasteRecords", tokenKind: "index", newestFirst: true, seeded: 100,
		newInst: func(rng *vk.Rand) *inst {
			model := wastepb.NewModel()
			srv := wastepb.NewModelServer(model)
			cl := wastepb.WrapApi(srv)
			in := &inst{
				add: func(id, tag string, k int) (string, error) {
					_, err := model.AddWasteRecord(&traits.WasteRecord{Id: id, Area: tag, Weight: float32(k)})
					return id, err
				},
				newReq:  func() proto.Message { return &traits.ListWasteRecordsRequest{} },
				direct:  adaptServer(srv.ListWasteRecords),
				wrapped: adaptClient(cl.ListWasteRecords),
				full: func() []proto.Message {
					n := model.GetWasteRecordCount()
					return asMessages(model.ListWasteRecords(n, n))
				},
			}
			// NewModel documents that it seeds 100 generated records, ids "0".."99" in chronological order
			for i := 0; i < 100; i++ {
				in.pre = append(in.pre, item{id: fmt.Sprint(i), tag: fmt.Sprintf("Area %d", i%3+1)})
			}
			return in
		},
	},
}

// fillRequest sets the paging fields of a List request by their proto field names.
func fillRequest(req proto.Message, size int32, token string, mask []string) {
	m := req.ProtoReflect()
	fds := m.Descriptor().Fields()
	m.Set(fds.ByName("name"), protoreflect.ValueOfString("dev"))
	m.Set(fds.ByName("page_size"), protoreflect.ValueOfInt32(size))
	m.Set(fds.ByName("page_token"), protoreflect.ValueOfString(token))
	if mask != nil {
		m.Set(fds.ByName("read_mask"), protoreflect.ValueOfMessage((&fieldmaskpb.FieldMask{Paths: mask}).ProtoReflect()))
	}
}

// page is what the harness reads from one List response.
type page struct {
	items []item // id/tag as present in the returned items ("" when masked away)
	next  string
	total int32
}

func readResponse(t *target, res proto.Message) page {
	m := res.ProtoReflect()
	fds := m.Descriptor().Fields()
	p := page{
		next:  m.Get(fds.ByName("next_page_token")).String(),
		total: int32(m.Get(fds.ByName("total_size")).Int()),
	}
	list := m.Get(fds.ByName(protoreflect.Name(t.itemsField))).List()
	for i := 0; i < list.Len(); i++ {
		im := list.Get(i).Message()
		p.items = append(p.items, item{id: readPath(im, t.keyPath), tag: readPath(im, t.tagPath)})
	}
	return p
}

// readPath renders the scalar at a dotted field path; "" when an intermediate message is unset.
func readPath(m protoreflect.Message, path string) string {
	parts := strings.Split(path, ".")
	for i, part := range parts {
		fd := m.Descriptor().Fields().ByName(protoreflect.Name(part))
		if fd == nil {
			return ""
		}
		if i < len(parts)-1 {
			if !m.Has(fd) {
				return ""
			}
			m = m.Get(fd).Message()
			continue
		}
		v := m.Get(fd)
		switch fd.Kind() {
		case protoreflect.StringKind:
			return v.String()
		case protoreflect.FloatKind, protoreflect.DoubleKind:
			if !m.Has(fd) {
				return ""
			}
			return fmt.Sprintf("t%d", int(v.Float()))
		}
		return v.String()
	}
	return ""
}
