package main

import (
	"encoding/base64"
	"fmt"
	"math"
	"regexp"
	"strconv"
	"unicode/utf8"

	"google.golang.org/grpc/status"
	"google.golang.org/protobuf/encoding/protowire"
	"google.golang.org/protobuf/proto"

	"github.com/smart-core-os/sc-api/go/types"

	"github.com/smart-core-os/sc-golang/internal/verif/vk"
)

func errClass(err error) string {
	if st, ok := status.FromError(err); ok {
		return "status-" + st.Code().String()
	}
	return "plain-error(Unknown-on-the-wire)"
}

// negativeSizes sends negative page sizes; the statement demands an error status for each.
func (s *scenario) negativeSizes(r *vk.Run, rng *vk.Rand, midToken string) {
	t := s.t
	type probe struct {
		size  int32
		token string
	}
	var probes []probe
	for size := int32(-5); size <= -1; size++ {
		probes = append(probes, probe{size, ""})
	}
	probes = append(probes, probe{int32(-rng.Range(6, 2000)), ""}, probe{[]int32{math.MinInt32, -1000, -1001, -50}[rng.Intn(4)], ""})
	if midToken != "" {
		probes = append(probes, probe{int32(-rng.Range(1, 5)), midToken}, probe{int32(-rng.Range(6, 1200)), midToken})
	}
	for _, p := range probes {
		tokClass := "first-page"
		if p.token != "" {
			tokClass = "with-valid-token"
		}
		judge := func(call callFn, via string) (flagged bool) {
			w := s.walk(call, []int32{p.size}, nil, p.token, 1)
			r.Eval(1)
			r.Count("neg-probes", 1)
			if s.n > 0 {
				r.Distinct(fmt.Sprintf("neg|%s|size=%d|%s|n=%d%s", t.rpc, p.size, tokClass, s.n, via))
			}
			replay := map[string]any{"scenario": s.replay, "page_size": p.size, "page_token": p.token, "via": via}
			head := fmt.Sprintf("%s%s with %d items, page_size=%d, token %s: ", t.rpc, via, s.n, p.size, tokClass)
			switch {
			case w.panicked != "":
				r.Count("neg-probes/panic", 1)
				r.Violation("C15/"+t.rpc+"/negative-size-panic"+via, head+"the handler panicked instead of answering with an error status\n"+w.panicked, replay)
				return true
			case w.err != nil:
				r.Count("neg-probes/rejected/"+errClass(w.err), 1)
			default:
				r.Count("neg-probes/accepted", 1)
				pg := w.pages[0]
				r.Violation("C15/"+t.rpc+"/negative-size-accepted"+via, head+fmt.Sprintf("answered with success (%d items, next_page_token=%q, total_size=%d) instead of an error status", len(pg.items), pg.next, pg.total), replay)
				flagged = true
			}
			if r.WantSample("negative-size/" + t.rpc) {
				r.Sample("negative-size/"+t.rpc, map[string]any{"rpc": t.rpc, "items": s.n, "page_size": p.size, "token": tokClass, "error": fmt.Sprint(w.err)})
			}
			return flagged
		}
		if judge(s.in.direct, "") {
			// through the wrapper a panic would be on a library goroutine and kill the worker; what the direct
			// call already showed is not reported a second time
			r.Count("wrapped-skipped-after-direct-finding", 1)
			continue
		}
		if rng.Chance(1, 4) {
			if r.Guard("C15/"+t.rpc+"/negative-size-panic/wrapped", map[string]any{"scenario": s.replay, "page_size": p.size, "page_token": p.token}) {
				judge(s.in.wrapped, "/wrapped")
				r.Unguard()
			}
		}
	}
}

type hostile struct {
	class string
	token string
}

func encodeToken(pt *types.PageToken) string {
	b, err := proto.Marshal(pt)
	if err != nil {
		panic(err)
	}
	return base64.StdEncoding.EncodeToString(b)
}

func nameToken(key string) string {
	return encodeToken(&types.PageToken{PageStart: &types.PageToken_LastResourceName{LastResourceName: key}})
}

// decodableAsPageToken is the harness' own reading of "the token decodes": some base64 variant yields bytes that
// parse as a PageToken. Only tokens for which this is false are required to be rejected.
func decodableAsPageToken(tok string) bool {
	for _, enc := range []*base64.Encoding{base64.StdEncoding, base64.RawStdEncoding, base64.URLEncoding, base64.RawURLEncoding} {
		b, err := enc.DecodeString(tok)
		if err != nil {
			continue
		}
		if proto.Unmarshal(b, &types.PageToken{}) == nil {
			return true
		}
	}
	return false
}

var decimalInt = regexp.MustCompile(`^[+-]?[0-9]+$`)

func (s *scenario) hostileList(rng *vk.Rand, midToken string) []hostile {
	n := s.n
	var hs []hostile
	if s.t.tokenKind == "index" {
		nonNumeric := []string{"abc", "12x", "x12", "1.5", "1e3", "0x10", " 5", "5 ", "٣", "1_0", "½", "NaN", "5\n", "--5", "1-1"}
		hs = append(hs,
			hostile{"non-numeric", nonNumeric[rng.Intn(len(nonNumeric))]},
			hostile{"non-numeric", nonNumeric[rng.Intn(len(nonNumeric))]},
			hostile{"non-numeric", nameToken("5")},
			hostile{"sign-only", []string{"-", "+"}[rng.Intn(2)]},
			hostile{"overflow", []string{"99999999999999999999", "-99999999999999999999", "18446744073709551616", "9223372036854775808"}[rng.Intn(4)]},
			hostile{"beyond-count", strconv.Itoa(n + 1)},
			hostile{"beyond-count", strconv.Itoa(n + rng.Range(2, 500))},
			hostile{"beyond-count", []string{"2147483647", "2147483648", "1099511627776", "9223372036854775807"}[rng.Intn(4)]},
			hostile{"negative", strconv.Itoa(-rng.Range(1, n+5))},
			hostile{"negative", []string{"-1", "-2147483648", "-9223372036854775807"}[rng.Intn(3)]},
			hostile{"int-min", "-9223372036854775808"},
			hostile{"plus-prefixed", "+" + strconv.Itoa(rng.Range(0, n))},
			hostile{"zero", []string{"0", "-0", "00"}[rng.Intn(3)]},
			hostile{"in-range-unissued", strconv.Itoa(rng.Range(1, n))},
			hostile{"in-range-unissued", "00" + strconv.Itoa(rng.Range(1, n))},
		)
		return hs
	}

	base := midToken
	if base == "" {
		base = nameToken("some-key")
	}
	raw, _ := base64.StdEncoding.DecodeString(base)
	// characters outside every base64 alphabet
	bad := []byte("!*$%&()[]{}<>?,;:'\"\\|^`#@ ")
	nb := []byte(base)
	nb[rng.Intn(len(nb))] = bad[rng.Intn(len(bad))]
	hs = append(hs, hostile{"non-base64", string(nb)})
	hs = append(hs, hostile{"non-base64", []string{"!", "not a token", "%%%%", "{\"last\":1}", "*" + base, base + "!"}[rng.Intn(6)]})
	// truncated: cut characters off a server issued token
	if len(base) > 1 {
		hs = append(hs, hostile{"truncated", base[:len(base)-rng.Range(1, min(len(base)-1, 5))]})
		hs = append(hs, hostile{"truncated", base[:rng.Range(1, len(base)-1)]})
	}
	// truncated on the byte level: the length prefix promises more than there is
	if len(raw) > 2 {
		hs = append(hs, hostile{"truncated-bytes", base64.StdEncoding.EncodeToString(raw[:rng.Range(1, len(raw)-1)])})
	}
	// bit flips in the decoded bytes (tag, length or payload) and in the text
	for k := 0; k < 2 && len(raw) > 0; k++ {
		fb := append([]byte{}, raw...)
		i := rng.Intn(len(fb))
		if k == 0 {
			i = rng.Intn(min(2, len(fb))) // the tag or the length byte
		}
		fb[i] ^= 1 << uint(rng.Intn(8))
		hs = append(hs, hostile{"bit-flipped", base64.StdEncoding.EncodeToString(fb)})
	}
	rb := make([]byte, rng.Range(1, 12))
	rng.Read(rb)
	hs = append(hs, hostile{"random-bytes", base64.StdEncoding.EncodeToString(rb)})
	// field 2 (string) holding invalid UTF-8: proto3 parsers must reject it
	hs = append(hs, hostile{"invalid-utf8-key", base64.StdEncoding.EncodeToString(append(protowire.AppendTag(nil, 2, protowire.BytesType), 2, 0xff, 0xfe))})
	// well-formed tokens the server never issued for this collection
	foreign := []string{"\x00", "~~~~", "zzzzzzzz", "0", "a"}
	if n > 0 {
		k := s.ref[rng.Intn(n)].id
		foreign = append(foreign, k+"\x00", k+"0", k[:len(k)-1]+"\x7f", "\x01"+k)
		if rs := []rune(k); len(rs) > 1 {
			foreign = append(foreign, string(rs[:len(rs)-1]))
		}
	}
	for k := 0; k < 3; k++ {
		f := foreign[rng.Intn(len(foreign))]
		if _, exists := s.byID[f]; exists || f == "" || !utf8.ValidString(f) {
			continue
		}
		hs = append(hs, hostile{"foreign-key", nameToken(f)})
	}
	hs = append(hs, hostile{"offset-arm", encodeToken(&types.PageToken{PageStart: &types.PageToken_LastOffset{LastOffset: int32(rng.Range(-3, n+3))}})})
	unk := protowire.AppendVarint(protowire.AppendTag(append([]byte{}, raw...), protowire.Number(rng.Range(3, 40)), protowire.VarintType), rng.Uint64())
	hs = append(hs, hostile{"unknown-field", base64.StdEncoding.EncodeToString(unk)})
	return hs
}

// hostileTokens sends tokens the server never issued. Malformed ones must be answered with an error; decodable
// ones may be honoured but then the chain must end within items+2 pages; nothing may panic.
func (s *scenario) hostileTokens(r *vk.Run, rng *vk.Rand, midToken string) {
	t := s.t
	for _, h := range s.hostileList(rng, midToken) {
		var malformed bool
		if t.tokenKind == "index" {
			malformed = !decimalInt.MatchString(h.token)
		} else {
			malformed = !decodableAsPageToken(h.token)
		}
		var size int32
		if s.n <= 200 {
			size = []int32{0, 1, 2, 7, 50, int32(rng.Range(1, s.n+1))}[rng.Intn(6)]
		} else {
			size = []int32{0, 50, 400, 1000, 5000}[rng.Intn(5)]
		}
		judge := func(call callFn, via string) (flagged bool) {
			w := s.walk(call, []int32{size}, nil, h.token, s.n+2)
			r.Eval(1)
			if s.n > 0 {
				r.Distinct(fmt.Sprintf("tok|%s|%s|%q|n=%d|size=%d%s", t.rpc, h.class, h.token, s.n, size, via))
			}
			kind := "decodable"
			if malformed {
				kind = "malformed"
			}
			r.Count("tok-probes/"+kind, 1)
			r.Count("tok-probes-class/"+h.class+"/"+kind, 1)
			replay := map[string]any{"scenario": s.replay, "page_size": size, "page_token": h.token, "token_class": h.class, "via": via}
			head := fmt.Sprintf("%s%s with %d items, page_size=%d, %s %s token %q: ", t.rpc, via, s.n, size, kind, h.class, h.token)
			switch {
			case w.panicked != "":
				r.Count("tok-probes/panic", 1)
				r.Violation("C15/"+t.rpc+"/bad-token-panic/"+h.class+via, head+fmt.Sprintf("the handler panicked on page %d of the chain\n%s", len(w.pages)+1, w.panicked), replay)
				return true
			case len(w.pages) == 0:
				r.Count("tok-probes/"+kind+"-rejected/"+errClass(w.err), 1)
			default:
				r.Count("tok-probes/"+kind+"-honoured", 1)
				if malformed {
					pg := w.pages[0]
					r.Violation("C15/"+t.rpc+"/bad-token-accepted/"+h.class+via, head+fmt.Sprintf("answered with success (%d items, next_page_token=%q) instead of an error status", len(pg.items), pg.next), replay)
					flagged = true
				}
				if w.endless != "" {
					r.Violation("C15/"+t.rpc+"/endless/bad-token/"+h.class+via, head+w.endless+fmt.Sprintf("; page lengths %v", w.lens()), replay)
					flagged = true
				}
				if w.err != nil {
					r.Count("tok-probes/honoured-then-error", 1)
				}
			}
			if r.WantSample("hostile-token/" + t.rpc) {
				r.Sample("hostile-token/"+t.rpc, map[string]any{"rpc": t.rpc, "items": s.n, "class": h.class, "token": h.token, "malformed": malformed, "page_size": size,
					"pages_returned": w.lens(), "error": fmt.Sprint(w.err)})
			}
			return flagged
		}
		if judge(s.in.direct, "") {
			r.Count("wrapped-skipped-after-direct-finding", 1)
			continue
		}
		if rng.Chance(1, 5) {
			if r.Guard("C15/"+t.rpc+"/bad-token-panic/"+h.class+"/wrapped", map[string]any{"scenario": s.replay, "page_size": size, "page_token": h.token}) {
				judge(s.in.wrapped, "/wrapped")
				r.Unguard()
			}
		}
	}
}
