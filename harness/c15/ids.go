package main

import (
	"strconv"
	"unicode/utf8"

	"github.com/smart-core-os/sc-golang/internal/verif/vk"
)

// rune pools for generated keys; all produce valid UTF-8, several produce keys whose byte order differs from
// "natural" orders (upper/lower case, digits of different length, multi-byte runes, control characters).
var runePools = [][]rune{
	[]rune("ab"),
	[]rune("abcdefgh"),
	[]rune("aAbB01"),
	[]rune("0123456789"),
	[]rune("a/b-c_d.e~"),
	[]rune("aé日ÿ z"),
	[]rune("a\x01\x7f b+="),
}

func randKey(rng *vk.Rand, pool []rune, minLen, maxLen int) string {
	n := rng.Range(minLen, maxLen)
	rs := make([]rune, n)
	for i := range rs {
		rs[i] = pool[rng.Intn(len(pool))]
	}
	return string(rs)
}

// genKeys returns n distinct non-empty valid UTF-8 keys; many are proper prefixes / extensions of each other.
func genKeys(rng *vk.Rand, n int, taken map[string]bool) []string {
	pool := runePools[rng.Intn(len(runePools))]
	numeric := rng.Chance(1, 6)
	// a quarter of the key sets contain long keys (a device path of 90-400 bytes): the key is what the page token carries
	long := rng.Chance(1, 4)
	out := make([]string, 0, n)
	for tries := 0; len(out) < n; tries++ {
		var id string
		switch {
		case len(out) > 0 && rng.Chance(2, 5):
			// extension: an existing key becomes a proper prefix of the new one
			id = out[rng.Intn(len(out))] + randKey(rng, pool, 1, 2)
		case len(out) > 0 && rng.Chance(1, 6):
			// truncation: the new key is a proper prefix of an existing one
			rs := []rune(out[rng.Intn(len(out))])
			if len(rs) > 1 {
				id = string(rs[:rng.Range(1, len(rs)-1)])
			}
		case long && rng.Chance(1, 3):
			id = randKey(rng, pool, 1, 3) + "/" + randKey(rng, pool, 90, 400)
		case numeric:
			id = strconv.Itoa(rng.Intn(3*n + 10 + 2*tries))
		default:
			id = randKey(rng, pool, 1, 4+tries/200)
		}
		if id == "" || taken[id] || !utf8.ValidString(id) {
			continue
		}
		taken[id] = true
		out = append(out, id)
	}
	return out
}
