package vk

import (
	"reflect"

	"google.golang.org/protobuf/proto"
)

// PokeThroughPointers changes m the way Go code holding the generated struct can and protoreflect cannot: it writes
// THROUGH the pointers of optional scalar fields (*p = other value; protoreflect's Set installs a fresh pointer
// instead) and flips the first byte of every non-empty bytes field in place. Whoever shares such a pointer or
// backing array with m sees the change. It recurses into nested messages, repeated messages and message-valued
// maps and returns the number of places written. Only generated message structs are handled (others: 0).
func PokeThroughPointers(m proto.Message) int {
	if m == nil {
		return 0
	}
	v := reflect.ValueOf(m)
	if v.Kind() != reflect.Ptr || v.IsNil() || v.Elem().Kind() != reflect.Struct {
		return 0
	}
	return pokeStruct(v.Elem(), 0)
}

var protoMessageType = reflect.TypeOf((*proto.Message)(nil)).Elem()

func pokeStruct(s reflect.Value, depth int) int {
	if depth > 6 {
		return 0
	}
	n := 0
	t := s.Type()
	for i := 0; i < s.NumField(); i++ {
		if t.Field(i).PkgPath != "" { // unexported (state, sizeCache, unknownFields)
			continue
		}
		n += pokeValue(s.Field(i), depth)
	}
	return n
}

func pokeValue(f reflect.Value, depth int) int {
	switch f.Kind() {
	case reflect.Ptr:
		if f.IsNil() {
			return 0
		}
		e := f.Elem()
		switch e.Kind() {
		case reflect.Struct:
			if f.Type().Implements(protoMessageType) {
				return pokeStruct(e, depth+1)
			}
		case reflect.Int32, reflect.Int64:
			if e.CanSet() {
				e.SetInt(e.Int() + 41)
				return 1
			}
		case reflect.Uint32, reflect.Uint64:
			if e.CanSet() {
				e.SetUint(e.Uint() + 41)
				return 1
			}
		case reflect.Float32, reflect.Float64:
			if e.CanSet() {
				e.SetFloat(e.Float() + 41)
				return 1
			}
		case reflect.Bool:
			if e.CanSet() {
				e.SetBool(!e.Bool())
				return 1
			}
		case reflect.String:
			if e.CanSet() {
				e.SetString(e.String() + "~poked")
				return 1
			}
		}
	case reflect.Slice:
		if f.Type().Elem().Kind() == reflect.Uint8 {
			if f.Len() > 0 {
				f.Index(0).SetUint(f.Index(0).Uint() ^ 0xff)
				return 1
			}
			return 0
		}
		n := 0
		for i := 0; i < f.Len(); i++ {
			n += pokeValue(f.Index(i), depth)
		}
		return n
	case reflect.Map:
		n := 0
		iter := f.MapRange()
		for iter.Next() {
			n += pokeValue(iter.Value(), depth)
		}
		return n
	case reflect.Interface: // oneof wrapper
		if f.IsNil() {
			return 0
		}
		w := f.Elem()
		if w.Kind() == reflect.Ptr && !w.IsNil() && w.Elem().Kind() == reflect.Struct {
			n := 0
			ws := w.Elem()
			for i := 0; i < ws.NumField(); i++ {
				if ws.Type().Field(i).PkgPath == "" {
					n += pokeValue(ws.Field(i), depth)
				}
			}
			return n
		}
	}
	return 0
}
