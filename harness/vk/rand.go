package vk

import "math"

// Rand is a splitmix64 PRNG: tiny, fast, and fully determined by its seed.
type Rand struct{ s uint64 }

func NewRand(seed uint64) *Rand { return &Rand{s: seed} }

func (r *Rand) Uint64() uint64 {
	r.s += 0x9E3779B97F4A7C15
	z := r.s
	z = (z ^ (z >> 30)) * 0xBF58476D1CE4E5B9
	z = (z ^ (z >> 27)) * 0x94D049BB133111EB
	return z ^ (z >> 31)
}

// Intn returns a value in [0,n). n must be > 0.
func (r *Rand) Intn(n int) int { return int(r.Uint64() % uint64(n)) }

// Range returns a value in [lo,hi].
func (r *Rand) Range(lo, hi int) int { return lo + r.Intn(hi-lo+1) }

// Bool returns true with probability 1/2.
func (r *Rand) Bool() bool { return r.Uint64()&1 == 1 }

// Chance returns true with probability num/den.
func (r *Rand) Chance(num, den int) bool { return r.Intn(den) < num }

func (r *Rand) Int63() int64 { return int64(r.Uint64() >> 1) }

func (r *Rand) Float64() float64 { return float64(r.Uint64()>>11) / (1 << 53) }

// Perm returns a random permutation of [0,n).
func (r *Rand) Perm(n int) []int {
	p := make([]int, n)
	for i := range p {
		p[i] = i
	}
	for i := n - 1; i > 0; i-- {
		j := r.Intn(i + 1)
		p[i], p[j] = p[j], p[i]
	}
	return p
}

// Read fills p with pseudo random bytes; it makes Rand usable as resource.WithRNG.
// Not safe for concurrent use (by design: see C11, the resource must serialise its use).
func (r *Rand) Read(p []byte) (int, error) {
	for i := range p {
		p[i] = byte(r.Uint64())
	}
	return len(p), nil
}

// Fork returns an independent generator derived from the current state.
func (r *Rand) Fork() *Rand { return NewRand(r.Uint64()) }

// PickStr returns one of the given strings.
func (r *Rand) PickStr(ss ...string) string { return ss[r.Intn(len(ss))] }

// SpecialFloat returns a float64 from a pool rich in edge cases.
func (r *Rand) SpecialFloat() float64 {
	switch r.Intn(12) {
	case 0:
		return math.NaN()
	case 1:
		return math.Inf(1)
	case 2:
		return math.Inf(-1)
	case 3:
		return math.Copysign(0, -1)
	case 4:
		return 0
	case 5:
		return float64(r.Range(-5, 5))
	case 6:
		return float64(r.Range(-1000, 1000)) / 8
	default:
		return (r.Float64() - 0.5) * 200
	}
}
