package vk

import (
	"bytes"
	"fmt"
	"sync"

	"google.golang.org/protobuf/proto"
)

// Shadow keeps, for every message that crossed the API boundary, the pointer and a deep copy taken at that
// moment. VerifyAll re-compares them: a difference means the message was changed behind the holder's back
// (aliasing between callers and stored state).
type Shadow struct {
	mu      sync.Mutex
	entries []*shadowEntry
	byPtr   map[proto.Message]bool
	Max     int // entries kept (oldest dropped); 0 = 4096
}

type shadowEntry struct {
	label string
	step  int
	ptr   proto.Message
	clone proto.Message
}

// ShadowDiff describes one retained message that changed.
type ShadowDiff struct {
	Label  string // what the message was when retained (e.g. "get-result", "event-old")
	Step   int    // operation index at which it was retained
	Was    string
	Is     string
	Detail string
}

func NewShadow() *Shadow { return &Shadow{byPtr: map[proto.Message]bool{}} }

// Observe retains msg (nil and typed-nil messages are ignored).
func (s *Shadow) Observe(label string, step int, msg proto.Message) {
	if msg == nil || !msg.ProtoReflect().IsValid() {
		return
	}
	s.mu.Lock()
	defer s.mu.Unlock()
	if s.byPtr[msg] {
		return
	}
	max := s.Max
	if max == 0 {
		max = 4096
	}
	if len(s.entries) >= max {
		drop := s.entries[0]
		delete(s.byPtr, drop.ptr)
		s.entries = s.entries[1:]
	}
	s.byPtr[msg] = true
	s.entries = append(s.entries, &shadowEntry{label: label, step: step, ptr: msg, clone: proto.Clone(msg)})
}

// Len returns the number of retained messages.
func (s *Shadow) Len() int { s.mu.Lock(); defer s.mu.Unlock(); return len(s.entries) }

// VerifyAll returns the retained messages that no longer equal their copy. Each is reported once (its copy
// is refreshed).
func (s *Shadow) VerifyAll() []ShadowDiff {
	s.mu.Lock()
	defer s.mu.Unlock()
	var out []ShadowDiff
	for _, e := range s.entries {
		if SameMessage(e.ptr, e.clone) {
			continue
		}
		out = append(out, ShadowDiff{Label: e.label, Step: e.step, Was: JSON(e.clone), Is: JSON(e.ptr)})
		e.clone = proto.Clone(e.ptr)
	}
	return out
}

// SameMessage is proto.Equal plus equality of unknown fields bytes, and treats NaN as equal to itself
// (a message must equal its own deep copy).
func SameMessage(a, b proto.Message) bool {
	if a == nil || b == nil {
		return a == nil && b == nil
	}
	if proto.Equal(a, b) {
		return true
	}
	// proto.Equal is false for NaN != NaN; compare deterministic encodings instead
	ab, err1 := proto.MarshalOptions{Deterministic: true}.Marshal(a)
	bb, err2 := proto.MarshalOptions{Deterministic: true}.Marshal(b)
	if err1 != nil || err2 != nil {
		return false
	}
	return a.ProtoReflect().Descriptor() == b.ProtoReflect().Descriptor() && bytes.Equal(ab, bb)
}

func (d ShadowDiff) String() string {
	return fmt.Sprintf("%s retained at step %d was %s, now %s", d.Label, d.Step, d.Was, d.Is)
}
