package vk

import (
	"fmt"
	"sort"

	"github.com/smart-core-os/sc-api/go/types"
	"google.golang.org/protobuf/proto"

	"github.com/smart-core-os/sc-golang/pkg/resource"
)

// View is the reference fold of a collection change stream: id -> last value.
type View struct {
	Items map[string]proto.Message
	// Chain problems found while folding (ADD for a held id, UPDATE/REMOVE for an unknown id, OldValue mismatch).
	Problems []string
	Strict   bool // when set, chain rules are checked
}

func NewView(strict bool) *View { return &View{Items: map[string]proto.Message{}, Strict: strict} }

// Apply folds one event into the view.
func (v *View) Apply(c *resource.CollectionChange) {
	cur, held := v.Items[c.Id]
	if v.Strict {
		switch c.ChangeType {
		case types.ChangeType_ADD:
			if held {
				v.Problems = append(v.Problems, fmt.Sprintf("ADD for id %q the view already holds", c.Id))
			}
			if c.OldValue != nil {
				v.Problems = append(v.Problems, fmt.Sprintf("ADD for id %q carries an old value", c.Id))
			}
		case types.ChangeType_UPDATE, types.ChangeType_REPLACE, types.ChangeType_REMOVE:
			if !held {
				v.Problems = append(v.Problems, fmt.Sprintf("%v for id %q the view does not hold", c.ChangeType, c.Id))
			} else if !SameMessage(cur, c.OldValue) {
				v.Problems = append(v.Problems, fmt.Sprintf("%v for id %q: old value %s but the view holds %s", c.ChangeType, c.Id, JSON(c.OldValue), JSON(cur)))
			}
		}
	}
	switch c.ChangeType {
	case types.ChangeType_REMOVE:
		delete(v.Items, c.Id)
	default:
		v.Items[c.Id] = c.NewValue
	}
}

// Sorted returns the view's values sorted by id, as Collection.List does.
func (v *View) Sorted() []proto.Message {
	ids := make([]string, 0, len(v.Items))
	for id := range v.Items {
		ids = append(ids, id)
	}
	sort.Strings(ids)
	out := make([]proto.Message, 0, len(ids))
	for _, id := range ids {
		out = append(out, v.Items[id])
	}
	return out
}

// SameList reports whether two message lists are element-wise equal.
func SameList(a, b []proto.Message) bool {
	if len(a) != len(b) {
		return false
	}
	for i := range a {
		if !SameMessage(a[i], b[i]) {
			return false
		}
	}
	return true
}

// ListJSON renders a list of messages.
func ListJSON(l []proto.Message) string {
	s := "["
	for i, m := range l {
		if i > 0 {
			s += ","
		}
		s += JSON(m)
	}
	return s + "]"
}

// ChangeJSON renders a collection change.
func ChangeJSON(c *resource.CollectionChange) string {
	if c == nil {
		return "<nil>"
	}
	return fmt.Sprintf("{id:%q type:%v old:%s new:%s seed:%v last:%v t:%d}", c.Id, c.ChangeType, JSON(c.OldValue), JSON(c.NewValue), c.SeedValue, c.LastSeedValue, c.ChangeTime.UnixNano())
}
