package vk

import (
	"runtime"
	"sync"
	"sync/atomic"
	"time"

	"github.com/smart-core-os/sc-golang/internal/verifhook"
)

// Sched is a controlled scheduler built on the verif build-tag hooks: a goroutine reaching an armed hook
// point is parked there until released, which lets a scenario run other operations *inside* a window of the
// library that is only a few instructions wide. In stress mode the same hook points yield pseudo-randomly.
type Sched struct {
	mu     sync.Mutex
	parks  []*Park
	tap    func(point string, key, val any)
	stress atomic.Uint64 // 0 = off, otherwise seed
	ctr    atomic.Uint64
	hits   sync.Map // point -> *atomic.Int64
}

// Park is one armed hook point. The first goroutine that reaches it (and satisfies Match) blocks until Release.
type Park struct {
	Point string
	Match func(key, val any) bool

	mu      sync.Mutex
	hit     bool
	Key     any
	Val     any
	arrived chan struct{}
	release chan struct{}
	relOnce sync.Once
}

// NewSched installs a scheduler as the process-wide hook handler.
func NewSched() *Sched {
	if !verifhook.Enabled {
		panic("vk.Sched needs a binary built with -tags verif")
	}
	s := &Sched{}
	verifhook.Set(s.handle)
	return s
}

// Close removes the handler and releases anything still parked.
func (s *Sched) Close() {
	verifhook.Set(nil)
	s.mu.Lock()
	ps := s.parks
	s.parks = nil
	s.mu.Unlock()
	for _, p := range ps {
		p.Release()
	}
}

// Tap registers f to be called at every hook point before any parking. f must be safe for concurrent use and,
// at points where the library holds a lock, must only record.
func (s *Sched) Tap(f func(point string, key, val any)) {
	s.mu.Lock()
	s.tap = f
	s.mu.Unlock()
}

// Stress switches on pseudo-random yields at every hook point (seed != 0) or off (seed == 0).
func (s *Sched) Stress(seed uint64) { s.stress.Store(seed) }

// Hits returns how many times point was reached since the scheduler was created.
func (s *Sched) Hits(point string) int64 {
	if v, ok := s.hits.Load(point); ok {
		return v.(*atomic.Int64).Load()
	}
	return 0
}

// ParkAt arms point: the next goroutine reaching it for which match (nil = always) is true parks there.
func (s *Sched) ParkAt(point string, match func(key, val any) bool) *Park {
	p := &Park{Point: point, Match: match, arrived: make(chan struct{}), release: make(chan struct{})}
	s.mu.Lock()
	s.parks = append(s.parks, p)
	s.mu.Unlock()
	return p
}

// Arrived reports whether a goroutine is (or was) parked here.
func (p *Park) Arrived() bool {
	select {
	case <-p.arrived:
		return true
	default:
		return false
	}
}

// Release lets the parked goroutine continue (and disarms the park if nothing arrived yet).
func (p *Park) Release() {
	p.relOnce.Do(func() { close(p.release) })
}

func (s *Sched) handle(point string, key, val any) {
	c, ok := s.hits.Load(point)
	if !ok {
		c, _ = s.hits.LoadOrStore(point, new(atomic.Int64))
	}
	c.(*atomic.Int64).Add(1)

	s.mu.Lock()
	tap := s.tap
	var mine *Park
	for i, p := range s.parks {
		if p.Point != point {
			continue
		}
		select {
		case <-p.release: // disarmed
			continue
		default:
		}
		if p.Match != nil && !p.Match(key, val) {
			continue
		}
		mine = p
		s.parks = append(s.parks[:i:i], s.parks[i+1:]...)
		break
	}
	s.mu.Unlock()

	if tap != nil {
		tap(point, key, val)
	}
	if mine != nil {
		mine.mu.Lock()
		mine.hit, mine.Key, mine.Val = true, key, val
		mine.mu.Unlock()
		close(mine.arrived)
		<-mine.release
		return
	}
	if seed := s.stress.Load(); seed != 0 {
		x := s.ctr.Add(1)
		z := (seed ^ x*0x9E3779B97F4A7C15)
		z = (z ^ (z >> 30)) * 0xBF58476D1CE4E5B9
		z = (z ^ (z >> 27)) * 0x94D049BB133111EB
		z ^= z >> 31
		switch {
		case z%64 == 0:
			time.Sleep(time.Duration(1+z>>58) * time.Microsecond)
		case z%4 == 0:
			for i := uint64(0); i < 1+(z>>60); i++ {
				runtime.Gosched()
			}
		}
	}
}

// Go runs f on a new goroutine and returns a handle that tells whether it has finished.
func Go(f func()) *Task {
	t := &Task{done: make(chan struct{})}
	go func() {
		defer close(t.done)
		f()
	}()
	return t
}

// Task is a goroutine started with Go.
type Task struct{ done chan struct{} }

// Done reports whether the task has returned.
func (t *Task) Done() bool {
	select {
	case <-t.done:
		return true
	default:
		return false
	}
}

// Wait blocks until the task has returned.
func (t *Task) Wait() { <-t.done }
