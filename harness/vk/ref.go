package vk

// Independent reference implementations of read-mask projection and masked merge.
// They are written against the property text and google/protobuf/field_mask.proto and never call pkg/masks,
// fmutils or fieldmaskpb.

import (
	"fmt"
	"sort"
	"strings"

	"google.golang.org/protobuf/proto"
	"google.golang.org/protobuf/reflect/protoreflect"
)

// PathClass classifies a mask path against a message type.
type PathClass int

const (
	PathValid         PathClass = iota // every segment names a field, continuation only through singular messages
	PathUnknown                        // some segment names no field
	PathThroughScalar                  // continues through a scalar (or enum, bytes, string)
	PathThroughMap                     // continues through a map field
	PathThroughRepSc                   // continues through a repeated scalar field
	PathThroughRepMsg                  // continues through a repeated message field (element-wise for projection)
	PathEmpty                          // "" or an empty segment
)

func (c PathClass) String() string {
	return [...]string{"valid", "unknown-segment", "through-scalar", "through-map", "through-repeated-scalar", "through-repeated-message", "empty-segment"}[c]
}

// ClassifyPath walks path over md.
func ClassifyPath(md protoreflect.MessageDescriptor, path string) PathClass {
	if path == "" {
		return PathEmpty
	}
	segs := strings.Split(path, ".")
	cls := PathValid
	for i, s := range segs {
		if s == "" {
			return PathEmpty
		}
		if md == nil {
			return PathUnknown
		}
		fd := md.Fields().ByName(protoreflect.Name(s))
		if fd == nil {
			return PathUnknown
		}
		last := i == len(segs)-1
		if last {
			break
		}
		switch {
		case fd.IsMap():
			return PathThroughMap
		case fd.IsList() && fd.Message() == nil:
			return PathThroughRepSc
		case fd.IsList():
			if cls == PathValid {
				cls = PathThroughRepMsg
			}
			md = fd.Message()
		case fd.Message() == nil:
			return PathThroughScalar
		default:
			md = fd.Message()
		}
	}
	return cls
}

// MaskValid is the reference for "validation reports the mask valid": all paths PathValid.
func MaskValid(md protoreflect.MessageDescriptor, paths []string) bool {
	for _, p := range paths {
		if ClassifyPath(md, p) != PathValid {
			return false
		}
	}
	return true
}

// maskNode is a node of the nested form of a mask; whole means the entire field is selected (a parent path
// wins over its child paths).
type maskNode struct {
	whole bool
	kids  map[string]*maskNode
}

func buildTree(paths []string) *maskNode {
	root := &maskNode{kids: map[string]*maskNode{}}
	for _, p := range paths {
		cur := root
		segs := strings.Split(p, ".")
		for i, s := range segs {
			n, ok := cur.kids[s]
			if !ok {
				n = &maskNode{kids: map[string]*maskNode{}}
				cur.kids[s] = n
			}
			if i == len(segs)-1 {
				n.whole = true
			}
			if n.whole {
				break
			}
			cur = n
		}
	}
	return root
}

// RefProject returns the projection of msg selected by paths: nil paths slice with all=true means everything.
// Paths must be PathValid or PathThroughRepMsg for msg's type (callers check); unknown segments select nothing.
// msg is never modified. A nil msg yields nil.
func RefProject(msg proto.Message, paths []string, all bool) proto.Message {
	if msg == nil {
		return nil
	}
	if all {
		return proto.Clone(msg)
	}
	out := msg.ProtoReflect().New()
	if len(paths) == 0 {
		return out.Interface()
	}
	project(out, msg.ProtoReflect(), buildTree(paths))
	return out.Interface()
}

func project(dst, src protoreflect.Message, t *maskNode) {
	fds := src.Descriptor().Fields()
	for name, sub := range t.kids {
		fd := fds.ByName(protoreflect.Name(name))
		if fd == nil || !src.Has(fd) {
			continue
		}
		switch {
		case sub.whole || fd.IsMap() || fd.Message() == nil:
			copyField(dst, src, fd)
		case fd.IsList():
			sl := src.Get(fd).List()
			dl := dst.Mutable(fd).List()
			for i := 0; i < sl.Len(); i++ {
				e := dl.NewElement()
				project(e.Message(), sl.Get(i).Message(), sub)
				dl.Append(e)
			}
		default:
			project(dst.Mutable(fd).Message(), src.Get(fd).Message(), sub)
		}
	}
}

func copyField(dst, src protoreflect.Message, fd protoreflect.FieldDescriptor) {
	tmp := src.New()
	tmp.Set(fd, src.Get(fd))
	cl := proto.Clone(tmp.Interface()).ProtoReflect()
	dst.Set(fd, cl.Get(fd))
}

// ---------------------------------------------------------------------------------------------------------
// Flattening: a message as a map from leaf path to a canonical value string. Paths descend through singular
// messages only; lists and maps are leaves compared as a whole. A set singular message additionally yields
// "<path>/" = "present".

// Flatten returns the leaf map of msg (nil-safe).
func Flatten(msg proto.Message) map[string]string {
	out := map[string]string{}
	if msg == nil {
		return out
	}
	flatten(out, "", msg.ProtoReflect())
	return out
}

func flatten(out map[string]string, prefix string, m protoreflect.Message) {
	m.Range(func(fd protoreflect.FieldDescriptor, v protoreflect.Value) bool {
		p := prefix + string(fd.Name())
		switch {
		case fd.IsList() || fd.IsMap():
			out[p] = canonField(m, fd)
		case fd.Message() != nil:
			out[p+"/"] = "present"
			flatten(out, p+".", v.Message())
		default:
			out[p] = canonField(m, fd)
		}
		return true
	})
	if u := m.GetUnknown(); len(u) > 0 {
		out[prefix+"?unknown"] = fmt.Sprintf("%x", []byte(u))
	}
}

func canonField(m protoreflect.Message, fd protoreflect.FieldDescriptor) string {
	if !m.Has(fd) {
		return ""
	}
	tmp := m.New()
	tmp.Set(fd, m.Get(fd))
	b, err := proto.MarshalOptions{Deterministic: true}.Marshal(tmp.Interface())
	if err != nil {
		return "ERR:" + err.Error()
	}
	return fmt.Sprintf("%x", b)
}

// under reports whether leaf path p lies inside region q (p == q, p below q, or p is q's presence marker).
func under(p, q string) bool {
	p = strings.TrimSuffix(p, "/")
	return p == q || strings.HasPrefix(p, q+".")
}

// above reports whether p is a presence marker of a strict ancestor of q.
func above(p, q string) bool {
	if !strings.HasSuffix(p, "/") {
		return false
	}
	return strings.HasPrefix(q, strings.TrimSuffix(p, "/")+".")
}

// DiffOutside lists the leaf paths at which a and b differ, ignoring everything inside one of the regions and
// the presence markers of the regions' ancestors.
func DiffOutside(a, b proto.Message, regions []string) []string {
	fa, fb := Flatten(a), Flatten(b)
	var out []string
	seen := map[string]bool{}
	check := func(p string) {
		if seen[p] {
			return
		}
		seen[p] = true
		if fa[p] == fb[p] {
			return
		}
		for _, q := range regions {
			if q == "" || under(p, q) || above(p, q) {
				return
			}
		}
		out = append(out, p)
	}
	for p := range fa {
		check(p)
	}
	for p := range fb {
		check(p)
	}
	sort.Strings(out)
	return out
}

// SubFlatten returns the leaf map restricted to region q (keys relative to the message root).
func SubFlatten(msg proto.Message, q string) map[string]string {
	out := map[string]string{}
	for p, v := range Flatten(msg) {
		if q == "" || under(p, q) {
			out[p] = v
		}
	}
	return out
}

func sameMap(a, b map[string]string) bool {
	if len(a) != len(b) {
		return false
	}
	for k, v := range a {
		if bv, ok := b[k]; !ok || bv != v {
			return false
		}
	}
	return true
}

// GetPath returns the message holding the final field of a PathValid path, the field descriptor, and whether
// all ancestors are present.
func GetPath(m protoreflect.Message, path string) (holder protoreflect.Message, fd protoreflect.FieldDescriptor, ok bool) {
	segs := strings.Split(path, ".")
	cur := m
	for i, s := range segs {
		fd = cur.Descriptor().Fields().ByName(protoreflect.Name(s))
		if fd == nil {
			return nil, nil, false
		}
		if i == len(segs)-1 {
			return cur, fd, true
		}
		if !cur.Has(fd) {
			return nil, fd, false
		}
		cur = cur.Get(fd).Message()
	}
	return nil, nil, false
}

// mutPath is GetPath that creates missing ancestors.
func mutPath(m protoreflect.Message, path string) (protoreflect.Message, protoreflect.FieldDescriptor) {
	segs := strings.Split(path, ".")
	cur := m
	for i, s := range segs {
		fd := cur.Descriptor().Fields().ByName(protoreflect.Name(s))
		if i == len(segs)-1 {
			return cur, fd
		}
		cur = cur.Mutable(fd).Message()
	}
	return nil, nil
}

// covers reports whether mask path w covers path p (p is w or lies below it).
func covers(w, p string) bool { return w == p || strings.HasPrefix(p, w+".") }

// MergeSpec is the outcome of the reference masked merge.
type MergeSpec struct {
	// MustReject: the write must fail with InvalidArgument and change nothing.
	MustReject bool
	// MayReject: the property leaves acceptance open (an update path that is a strict ancestor of a writable path).
	MayReject bool
	// NoChange: an empty non-nil update mask: nothing may change (reset mask aside is left open).
	NoChange bool
	// Regions are the leaf regions (paths) the write may touch: M∩W. "" is the whole message.
	Regions []string
	// Candidates are the acceptable results (more than one where field_mask.proto and the library's documented
	// "absent means cleared" rule differ: an absent message/list/map named by the mask).
	Candidates []proto.Message
	// ResetPaths must be cleared in the result.
	ResetPaths []string
	Why        string
}

// RefMerge computes what a successful write of src over old with update mask M (nilM: no mask), writable
// fields W (nilW: everything) and reset mask may produce. old may be nil (treated as the zero message).
func RefMerge(old, src proto.Message, M []string, nilM bool, W []string, nilW bool, reset []string) MergeSpec {
	md := src.ProtoReflect().Descriptor()
	var spec MergeSpec
	if !nilM {
		for _, p := range M {
			if c := ClassifyPath(md, p); c != PathValid {
				return MergeSpec{MustReject: true, Why: "update mask path " + p + " is " + c.String()}
			}
		}
	}
	base := func() protoreflect.Message {
		if old == nil {
			return md0(src)
		}
		return proto.Clone(old).ProtoReflect()
	}
	// effective regions
	var regions []string
	switch {
	case nilM && nilW:
		regions = []string{""}
	case nilM:
		regions = append(regions, W...)
	case len(M) == 0:
		spec.NoChange = true
	default:
		for _, p := range M {
			if nilW {
				regions = append(regions, p)
				continue
			}
			hit := false
			for _, w := range W {
				if covers(w, p) {
					regions = append(regions, p)
					hit = true
					break
				}
			}
			if hit {
				continue
			}
			for _, w := range W {
				if covers(p, w) { // p is a strict ancestor of a writable path
					regions = append(regions, w)
					spec.MayReject = true
					hit = true
				}
			}
			if !hit {
				return MergeSpec{MustReject: true, Why: "update mask path " + p + " is outside the writable fields"}
			}
		}
	}
	spec.Regions = dedupe(regions)
	spec.ResetPaths = reset

	// build candidates; each ambiguous region doubles them
	cands := []protoreflect.Message{base()}
	srcR := src.ProtoReflect()
	for _, q := range spec.Regions {
		var next []protoreflect.Message
		for _, c := range cands {
			next = append(next, applyRegion(c, srcR, q, nilM)...)
		}
		cands = next
		if len(cands) > 64 {
			cands = cands[:64]
		}
	}
	for _, c := range cands {
		for _, rp := range reset {
			if ClassifyPath(md, rp) != PathValid {
				continue
			}
			if h, fd, ok := GetPath(c, rp); ok {
				h.Clear(fd)
			}
		}
		spec.Candidates = append(spec.Candidates, c.Interface())
	}
	return spec
}

func md0(m proto.Message) protoreflect.Message { return m.ProtoReflect().New() }

func dedupe(ss []string) []string {
	seen := map[string]bool{}
	var out []string
	for _, s := range ss {
		if !seen[s] {
			seen[s] = true
			out = append(out, s)
		}
	}
	// drop regions covered by another region
	var out2 []string
	for _, s := range out {
		cov := false
		for _, t := range out {
			if t != s && (t == "" || covers(t, s)) {
				cov = true
			}
		}
		if !cov {
			out2 = append(out2, s)
		}
	}
	return out2
}

// applyRegion returns the acceptable results of updating region q of c (consumed) from src.
func applyRegion(c, src protoreflect.Message, q string, replace bool) []protoreflect.Message {
	if q == "" { // whole message, only with nil M and nil W: replace
		out := src.New()
		proto.Merge(out.Interface(), src.Interface())
		return []protoreflect.Message{out}
	}
	sh, sfd, sok := GetPath(src, q)
	has := sok && sh.Has(sfd)
	fdOf := func(m protoreflect.Message) protoreflect.FieldDescriptor {
		_, fd, _ := GetPath(m, q)
		if fd == nil { // ancestors absent: find by descriptor walk
			md := m.Descriptor()
			segs := strings.Split(q, ".")
			for i, s := range segs {
				fd = md.Fields().ByName(protoreflect.Name(s))
				if i < len(segs)-1 {
					md = fd.Message()
				}
			}
		}
		return fd
	}
	fd := fdOf(c)
	composite := fd.IsList() || fd.IsMap() || fd.Message() != nil
	clearIt := func(m protoreflect.Message) protoreflect.Message {
		if h, f, ok := GetPath(m, q); ok {
			h.Clear(f)
		}
		return m
	}
	if !has {
		if replace || !composite {
			return []protoreflect.Message{clearIt(c)}
		}
		// absent message/list/map named by an update mask: field_mask.proto says merge/append nothing, the
		// library documents "absent means cleared"; both are accepted.
		keep := proto.Clone(c.Interface()).ProtoReflect()
		return []protoreflect.Message{clearIt(c), keep}
	}
	h, f := mutPath(c, q)
	if replace || !composite {
		tmp := sh.New()
		tmp.Set(sfd, sh.Get(sfd))
		cl := proto.Clone(tmp.Interface()).ProtoReflect()
		h.Set(f, cl.Get(f))
		return []protoreflect.Message{c}
	}
	// composite named by a mask: merge (message), append (list), overlay per key (map) = proto.Merge of that field
	tmpDst := h.New()
	if h.Has(f) {
		tmpDst.Set(f, h.Get(f))
	}
	tmpDstC := proto.Clone(tmpDst.Interface())
	tmpSrc := sh.New()
	tmpSrc.Set(sfd, sh.Get(sfd))
	proto.Merge(tmpDstC, tmpSrc.Interface())
	h.Set(f, tmpDstC.ProtoReflect().Get(f))
	return []protoreflect.Message{c}
}

// CheckMerge compares what a successful write produced (got) with the reference. It returns "" when got is
// acceptable, otherwise a clause name (frame, region, reset, empty-mask) and a description.
func CheckMerge(old, got proto.Message, spec MergeSpec) (clause, detail string) {
	if old == nil {
		old = got.ProtoReflect().New().Interface()
	}
	if spec.NoChange {
		if d := DiffOutside(old, got, spec.ResetPaths); len(d) > 0 {
			return "empty-mask", "empty update mask changed " + strings.Join(d, ",")
		}
		return "", ""
	}
	touch := append(append([]string{}, spec.Regions...), spec.ResetPaths...)
	if d := DiffOutside(old, got, touch); len(d) > 0 {
		return "frame", "fields outside M∩W changed: " + strings.Join(d, ",")
	}
	for _, rp := range spec.ResetPaths {
		if len(SubFlatten(got, rp)) != 0 {
			return "reset", "reset path " + rp + " not cleared"
		}
	}
	for _, c := range spec.Candidates {
		if proto.Equal(c, got) {
			return "", ""
		}
	}
	// find the first region that matches no candidate
	for _, q := range spec.Regions {
		g := SubFlatten(got, q)
		ok := false
		for _, c := range spec.Candidates {
			if sameMap(SubFlatten(c, q), g) {
				ok = true
				break
			}
		}
		if !ok {
			return "region", fmt.Sprintf("region %q differs from every acceptable result", q)
		}
	}
	// every region matches some candidate and the frame is intact; differences are confined to presence markers of
	// ancestors, which the property does not fix
	return "", ""
}

// FieldKindClass names the kind of the final field of a valid path, for violation keys.
func FieldKindClass(md protoreflect.MessageDescriptor, path string) string {
	if path == "" {
		return "root"
	}
	segs := strings.Split(path, ".")
	var fd protoreflect.FieldDescriptor
	for i, s := range segs {
		if md == nil {
			return "invalid"
		}
		fd = md.Fields().ByName(protoreflect.Name(s))
		if fd == nil {
			return "invalid"
		}
		if i < len(segs)-1 {
			md = fd.Message()
		}
	}
	nested := ""
	if len(segs) > 1 {
		nested = "nested-"
	}
	switch {
	case fd.IsMap():
		return nested + "map"
	case fd.IsList() && fd.Message() != nil:
		return nested + "repeated-message"
	case fd.IsList():
		return nested + "repeated-scalar"
	case fd.Message() != nil:
		return nested + "message"
	case fd.ContainingOneof() != nil && !fd.HasOptionalKeyword():
		return nested + "oneof-scalar"
	case fd.HasOptionalKeyword():
		return nested + "optional-scalar"
	default:
		return nested + "scalar"
	}
}

// EqualModuloAncestors reports whether a and b are equal except for the presence (set-but-empty vs unset) of
// messages that are strict ancestors of one of the regions.
func EqualModuloAncestors(a, b proto.Message, regions []string) bool {
	fa, fb := Flatten(a), Flatten(b)
	okDiff := func(p string) bool {
		if !strings.HasSuffix(p, "/") {
			return false
		}
		for _, q := range regions {
			if above(p, q) {
				return true
			}
		}
		return false
	}
	for p, v := range fa {
		if fb[p] != v && !okDiff(p) {
			return false
		}
	}
	for p, v := range fb {
		if fa[p] != v && !okDiff(p) {
			return false
		}
	}
	return true
}
