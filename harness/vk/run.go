// Package vk is the shared kit of the runtime monitors in /verif.
//
// A monitor is a main package that calls vk.Main(id, body). The driver (/verif/check) starts one or more
// worker processes of the monitor ("shards"), each of which writes a result file that the driver merges.
package vk

import (
	"encoding/binary"
	"encoding/json"
	"flag"
	"fmt"
	"hash/fnv"
	"io"
	"log"
	"os"
	"runtime/debug"
	"sort"
	"strings"
	"sync"
	"time"
)

// Run is the context of one worker process of a monitor.
type Run struct {
	// OnSpin, when set, is called by MustQuiesce when its watchdog fires while goroutines of the library are still running.
	OnSpin func(where string, busy []G)
	ID     string
	Tier   string // "quick" or "thorough"
	Seed   uint64
	Shard  int
	Shards int
	// Only, when non-empty, restricts the run to cases whose violation key has this prefix (used by replay).
	Only string

	out      string
	skipKeys map[string]bool

	mu           sync.Mutex
	counters     map[string]int64
	evals        int64
	distinct     map[uint64]struct{}
	samples      []any
	sampleKinds  map[string]int
	violations   map[string]*Violation
	vorder       []string
	inconclusive map[string]string
	notes        []string
	rule         string
	level        string
	assumptions  []string
	exhaustive   bool
	require      map[string]int64
	start        time.Time
	guardN       int64
}

// Violation is one class of property violation seen by a monitor, identified by a stable key.
type Violation struct {
	Key    string `json:"key"`
	Detail string `json:"detail"`
	Replay any    `json:"replay,omitempty"`
	Count  int64  `json:"count"`
}

type result struct {
	ID           string            `json:"id"`
	Tier         string            `json:"tier"`
	Seed         uint64            `json:"seed"`
	Shard        int               `json:"shard"`
	Shards       int               `json:"shards"`
	Evaluations  int64             `json:"evaluations"`
	Distinct     int               `json:"distinct"`
	Counters     map[string]int64  `json:"counters"`
	Samples      []any             `json:"samples"`
	Violations   []*Violation      `json:"violations"`
	Inconclusive map[string]string `json:"inconclusive"`
	Notes        []string          `json:"notes"`
	Rule         string            `json:"rule"`
	Level        string            `json:"level"`
	Assumptions  []string          `json:"assumptions"`
	Exhaustive   bool              `json:"exhaustive"`
	Require      map[string]int64  `json:"require"`
	WallS        float64           `json:"wall_s"`
	Complete     bool              `json:"complete"`
}

// Main parses the worker flags, runs body and writes the result file. It never returns.
func Main(id string, body func(r *Run)) {
	var (
		tier   = flag.String("tier", envOr("VERIF_TIER", "quick"), "quick|thorough")
		seed   = flag.Uint64("seed", 1, "PRNG seed")
		shard  = flag.Int("shard", 0, "index of this worker")
		shards = flag.Int("shards", 1, "number of workers")
		out    = flag.String("out", "", "result file")
		skip   = flag.String("skipkeys", "", "file with violation keys whose cases must be skipped (one per line)")
		only   = flag.String("only", "", "only run cases whose key has this prefix")
	)
	flag.Parse()
	log.SetOutput(io.Discard) // the library logs timeouts via the global logger; keep stderr for panics
	r := &Run{
		ID: id, Tier: *tier, Seed: *seed, Shard: *shard, Shards: *shards, Only: *only, out: *out,
		skipKeys:     map[string]bool{},
		counters:     map[string]int64{},
		distinct:     map[uint64]struct{}{},
		sampleKinds:  map[string]int{},
		violations:   map[string]*Violation{},
		inconclusive: map[string]string{},
		require:      map[string]int64{},
		level:        "exploration",
		start:        time.Now(),
	}
	if *skip != "" {
		if b, err := os.ReadFile(*skip); err == nil {
			for _, l := range strings.Split(string(b), "\n") {
				if l = strings.TrimSpace(l); l != "" {
					r.skipKeys[l] = true
				}
			}
		}
	}
	if r.Tier != "quick" && r.Tier != "thorough" {
		fmt.Fprintln(os.Stderr, "bad tier", r.Tier)
		os.Exit(3)
	}
	debug.SetTraceback("all")
	body(r)
	r.write(true)
	os.Exit(0)
}

func envOr(k, d string) string {
	if v := os.Getenv(k); v != "" {
		return v
	}
	return d
}

// Quick reports whether this is the quick tier.
func (r *Run) Quick() bool { return r.Tier == "quick" }

// Pick returns q in the quick tier and t in the thorough tier.
func (r *Run) Pick(q, t int) int {
	if r.Quick() {
		return q
	}
	return t
}

// Mine reports whether case number i belongs to this worker (cases are dealt round-robin over the shards).
func (r *Run) Mine(i int) bool { return r.Shards <= 1 || i%r.Shards == r.Shard }

// Rand returns a deterministic PRNG for the named stream, a function of (seed, stream) only.
func (r *Run) Rand(stream string) *Rand {
	h := fnv.New64a()
	h.Write([]byte(stream))
	return NewRand(r.Seed*0x9E3779B97F4A7C15 ^ h.Sum64())
}

// CaseRand returns the PRNG of case number i of a stream: a function of (seed, stream, i) only, so any worker
// can regenerate any case.
func (r *Run) CaseRand(stream string, i int) *Rand {
	h := fnv.New64a()
	h.Write([]byte(stream))
	return NewRand((r.Seed*0x9E3779B97F4A7C15 ^ h.Sum64()) + uint64(i)*0xD1342543DE82EF95)
}

// Count adds n to a named counter reported in the evidence.
func (r *Run) Count(name string, n int) {
	r.mu.Lock()
	r.counters[name] += int64(n)
	r.mu.Unlock()
}

// Counter returns the current value of a counter.
func (r *Run) Counter(name string) int64 {
	r.mu.Lock()
	defer r.mu.Unlock()
	return r.counters[name]
}

// Eval counts n evaluations (executions of the real code compared against an oracle).
func (r *Run) Eval(n int) {
	r.mu.Lock()
	r.evals += int64(n)
	r.mu.Unlock()
}

// Distinct records one non-trivial case by its descriptor; equal descriptors count once (also across workers).
func (r *Run) Distinct(desc string) {
	h := fnv.New64a()
	h.Write([]byte(desc))
	v := h.Sum64()
	r.mu.Lock()
	r.distinct[v] = struct{}{}
	r.mu.Unlock()
}

// Sample keeps v as a written-out example of what the run explored; at most 3 per kind are kept.
func (r *Run) Sample(kind string, v any) {
	r.mu.Lock()
	defer r.mu.Unlock()
	if r.sampleKinds[kind] >= 3 {
		return
	}
	r.sampleKinds[kind]++
	r.samples = append(r.samples, map[string]any{"kind": kind, "case": v})
}

// WantSample reports whether another sample of this kind would be kept (lets monitors avoid building them).
func (r *Run) WantSample(kind string) bool {
	r.mu.Lock()
	defer r.mu.Unlock()
	return r.sampleKinds[kind] < 3
}

// Violation records a property violation under a stable key. The first detail/replay per key is kept.
// Keys are built from discrete scenario parameters only, never from payloads.
func (r *Run) Violation(key, detail string, replay any) {
	r.mu.Lock()
	defer r.mu.Unlock()
	if v, ok := r.violations[key]; ok {
		v.Count++
		return
	}
	if len(detail) > 6000 {
		detail = detail[:6000] + "…"
	}
	r.violations[key] = &Violation{Key: key, Detail: detail, Replay: replay, Count: 1}
	r.vorder = append(r.vorder, key)
	r.writeLocked(false) // keep what we know on disk in case a later case kills the process
}

// Violated reports whether key has already been reported in this worker.
func (r *Run) Violated(key string) bool {
	r.mu.Lock()
	defer r.mu.Unlock()
	_, ok := r.violations[key]
	return ok
}

// Inconclusive records that part of the run could not be decided (watchdog, hook never reached, too few events).
func (r *Run) Inconclusive(key, why string) {
	r.mu.Lock()
	if _, ok := r.inconclusive[key]; !ok {
		r.inconclusive[key] = why
	}
	r.mu.Unlock()
}

// Note adds a free-text remark to the evidence.
func (r *Run) Note(format string, a ...any) {
	r.mu.Lock()
	if len(r.notes) < 50 {
		r.notes = append(r.notes, fmt.Sprintf(format, a...))
	}
	r.mu.Unlock()
}

// Describe sets the evidence texts: how cases are generated and what makes one distinct and non-trivial, plus
// what the check assumes.
func (r *Run) Describe(rule string, assumptions ...string) {
	r.mu.Lock()
	r.rule = rule
	r.assumptions = assumptions
	r.mu.Unlock()
}

// Exhaustive marks that this run enumerated its finite case space completely.
func (r *Run) Exhaustive(b bool) { r.mu.Lock(); r.exhaustive = b; r.mu.Unlock() }

// Require makes the run inconclusive unless the named counter (summed over workers) reaches min.
func (r *Run) Require(counter string, min int) {
	r.mu.Lock()
	r.require[counter] = int64(min)
	r.mu.Unlock()
}

// Guard must be called before a case that may kill the process (a panic on a goroutine started by the
// library). It records key and desc on disk first, so that the driver can attribute a crash, and returns false
// if cases of this key must be skipped because an earlier attempt already crashed on it.
func (r *Run) Guard(key string, desc any) bool {
	if r.skipKeys[key] {
		r.Count("skipped-after-crash", 1)
		return false
	}
	if r.Only != "" && !strings.HasPrefix(key, r.Only) {
		return false
	}
	if r.out == "" {
		return true
	}
	r.guardN++
	b, _ := json.Marshal(map[string]any{"key": key, "desc": desc, "n": r.guardN})
	_ = os.WriteFile(r.out+".cur", b, 0o644)
	return true
}

// Unguard clears the crash marker written by Guard.
func (r *Run) Unguard() {
	if r.out != "" {
		_ = os.WriteFile(r.out+".cur", []byte("{}"), 0o644)
	}
}

// Selected reports whether cases with this key should run (false only in replay mode for other keys).
func (r *Run) Selected(key string) bool {
	return r.Only == "" || strings.HasPrefix(key, r.Only) || strings.HasPrefix(r.Only, key)
}

func (r *Run) write(complete bool) {
	r.mu.Lock()
	defer r.mu.Unlock()
	r.writeLocked(complete)
}

func (r *Run) writeLocked(complete bool) {
	if r.out == "" {
		if complete {
			b, _ := json.MarshalIndent(r.resultLocked(complete), "", " ")
			fmt.Println(string(b))
		}
		return
	}
	res := r.resultLocked(complete)
	b, err := json.Marshal(res)
	if err != nil {
		// a sample or replay that cannot be marshalled must not lose the verdicts
		res.Samples = nil
		for _, v := range res.Violations {
			v.Replay = fmt.Sprint(v.Replay)
		}
		b, _ = json.Marshal(res)
	}
	tmp := r.out + ".tmp"
	_ = os.WriteFile(tmp, b, 0o644)
	_ = os.Rename(tmp, r.out)
	if complete {
		hs := make([]uint64, 0, len(r.distinct))
		for h := range r.distinct {
			hs = append(hs, h)
		}
		sort.Slice(hs, func(i, j int) bool { return hs[i] < hs[j] })
		buf := make([]byte, 8*len(hs))
		for i, h := range hs {
			binary.LittleEndian.PutUint64(buf[8*i:], h)
		}
		_ = os.WriteFile(r.out+".distinct", buf, 0o644)
		_ = os.WriteFile(r.out+".cur", []byte("{}"), 0o644)
	}
}

func (r *Run) resultLocked(complete bool) *result {
	vs := make([]*Violation, 0, len(r.vorder))
	for _, k := range r.vorder {
		vs = append(vs, r.violations[k])
	}
	return &result{
		ID: r.ID, Tier: r.Tier, Seed: r.Seed, Shard: r.Shard, Shards: r.Shards,
		Evaluations: r.evals, Distinct: len(r.distinct), Counters: r.counters, Samples: r.samples,
		Violations: vs, Inconclusive: r.inconclusive, Notes: r.notes, Rule: r.rule, Level: r.level,
		Assumptions: r.assumptions, Exhaustive: r.exhaustive, Require: r.require,
		WallS: time.Since(r.start).Seconds(), Complete: complete,
	}
}

// Recover runs f and converts a panic on the calling goroutine into (true, description).
func Recover(f func()) (panicked bool, what string) {
	defer func() {
		if x := recover(); x != nil {
			panicked = true
			what = fmt.Sprintf("%v\n%s", x, trimStack(debug.Stack()))
		}
	}()
	f()
	return
}

func trimStack(b []byte) string {
	s := string(b)
	if len(s) > 3000 {
		s = s[:3000] + "…"
	}
	return s
}

// GiveUp writes the results gathered so far as the worker's result and ends the process: used after a finding that
// makes every further quiescence check of this worker meaningless (a goroutine that spins for ever).
func (r *Run) GiveUp() {
	r.write(true)
	os.Exit(0)
}
