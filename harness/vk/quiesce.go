package vk

import (
	"bytes"
	"runtime"
	"strconv"
	"strings"
	"sync"
	"time"
)

// G describes one goroutine of a dump taken with runtime.Stack(all).
type G struct {
	ID      int
	State   string   // e.g. "chan receive", "select", "sync.RWMutex.Lock", "runnable"
	Funcs   []string // fully qualified function names, innermost first
	Created string   // function that created the goroutine ("" for main)
}

// Blocked reports whether the goroutine is parked on a channel, select or sync primitive, i.e. cannot make
// progress unless another goroutine (or a timer) acts.
func (g G) Blocked() bool {
	s := g.State
	if strings.HasPrefix(s, "semacquire") {
		// "semacquire" is also the state of a goroutine that is about to start a GC cycle or stop the world and waits
		// for the runtime's own semaphores (which the dump itself holds): that is not blocked in our sense. Only a
		// semaphore wait entered through package sync (WaitGroup, Mutex, Cond of older runtimes) counts.
		for i, f := range g.Funcs {
			if i > 6 {
				break
			}
			if strings.HasPrefix(f, "sync.runtime_Semacquire") || strings.HasPrefix(f, "internal/sync.runtime_Semacquire") {
				return true
			}
		}
		return false
	}
	return strings.HasPrefix(s, "chan receive") || strings.HasPrefix(s, "chan send") ||
		strings.HasPrefix(s, "select") || strings.HasPrefix(s, "sync.")
}

// Has reports whether any frame's function name contains sub.
func (g G) Has(sub string) bool {
	for _, f := range g.Funcs {
		if strings.Contains(f, sub) {
			return true
		}
	}
	return strings.Contains(g.Created, sub)
}

// InLibrary reports whether the goroutine has a frame in (or was created by) non-harness sc-golang code.
func (g G) InLibrary() bool {
	for _, f := range g.Funcs {
		if isLib(f) {
			return true
		}
	}
	return isLib(g.Created)
}

const modPrefix = "github.com/smart-core-os/sc-golang/"

func isLib(fn string) bool {
	i := strings.Index(fn, modPrefix)
	if i < 0 {
		return false
	}
	rest := fn[i+len(modPrefix):]
	return !strings.HasPrefix(rest, "internal/verif/") && !strings.HasPrefix(rest, "internal/verifhook")
}

func (g G) String() string {
	top := ""
	for _, f := range g.Funcs {
		if isLib(f) {
			top = f
			break
		}
	}
	if top == "" && len(g.Funcs) > 0 {
		top = g.Funcs[0]
	}
	return "g" + strconv.Itoa(g.ID) + "[" + g.State + "] " + top + " <- " + g.Created
}

var (
	dumpMu  sync.Mutex
	dumpBuf = make([]byte, 1<<20)
)

// Goroutines returns all goroutines except the caller, parsed from one atomic dump (the world is stopped while
// the dump is taken, so the states are mutually consistent).
func Goroutines() []G {
	dumpMu.Lock()
	defer dumpMu.Unlock()
	var n int
	for {
		n = runtime.Stack(dumpBuf, true)
		if n < len(dumpBuf) {
			break
		}
		dumpBuf = make([]byte, 2*len(dumpBuf))
	}
	return parseDump(dumpBuf[:n])
}

func parseDump(b []byte) []G {
	var gs []G
	first := true
	for len(b) > 0 {
		// one goroutine block ends at a blank line
		end := bytes.Index(b, []byte("\n\n"))
		var blk []byte
		if end < 0 {
			blk, b = b, nil
		} else {
			blk, b = b[:end], b[end+2:]
		}
		if !bytes.HasPrefix(blk, []byte("goroutine ")) {
			continue
		}
		if first { // the caller
			first = false
			continue
		}
		nl := bytes.IndexByte(blk, '\n')
		head := blk
		var rest []byte
		if nl >= 0 {
			head, rest = blk[:nl], blk[nl+1:]
		}
		var g G
		// "goroutine 12 [chan receive, 2 minutes]:"
		h := string(head[len("goroutine "):])
		sp := strings.IndexByte(h, ' ')
		if sp < 0 {
			continue
		}
		g.ID, _ = strconv.Atoi(h[:sp])
		lb, rb := strings.IndexByte(h, '['), strings.LastIndexByte(h, ']')
		if lb >= 0 && rb > lb {
			st := h[lb+1 : rb]
			if c := strings.IndexByte(st, ','); c >= 0 {
				st = st[:c]
			}
			g.State = st
		}
		for len(rest) > 0 {
			nl := bytes.IndexByte(rest, '\n')
			var line []byte
			if nl < 0 {
				line, rest = rest, nil
			} else {
				line, rest = rest[:nl], rest[nl+1:]
			}
			if len(line) == 0 || line[0] == '\t' {
				continue
			}
			s := string(line)
			if strings.HasPrefix(s, "created by ") {
				s = s[len("created by "):]
				if i := strings.Index(s, " in goroutine"); i >= 0 {
					s = s[:i]
				}
				g.Created = s
				continue
			}
			if i := strings.LastIndexByte(s, '('); i > 0 {
				s = s[:i]
			}
			g.Funcs = append(g.Funcs, s)
		}
		gs = append(gs, g)
	}
	return gs
}

func sig(gs []G) string {
	var sb strings.Builder
	for _, g := range gs {
		sb.WriteString(strconv.Itoa(g.ID))
		sb.WriteByte(':')
		sb.WriteString(g.State)
		sb.WriteByte(':')
		if len(g.Funcs) > 0 {
			sb.WriteString(g.Funcs[0])
		}
		sb.WriteByte(';')
	}
	return sb.String()
}

// QuiesceTimeout is the wall-clock watchdog of Quiesce. Its firing means "inconclusive", never a verdict.
var QuiesceTimeout = 60 * time.Second

// Quiesce waits until every goroutine other than the caller is blocked (channel, select, sync) in two
// consecutive atomic dumps with the same goroutines in the same states. In a closed harness (no network, no
// harness timers) such a state cannot change until the caller acts, apart from the library's own 1 s log alarm
// and the 5 s Value send timeout. It returns the goroutines of the last dump and false if the watchdog fired.
func Quiesce() ([]G, bool) {
	deadline := time.Now().Add(QuiesceTimeout)
	prev := "\x00" // never equal to a real signature: two dumps are always taken
	spins := 0
	for {
		gs := Goroutines()
		all := true
		for i := range gs {
			if !gs[i].Blocked() {
				all = false
				break
			}
		}
		if all {
			s := sig(gs)
			if s == prev {
				return gs, true
			}
			prev = s
			runtime.Gosched()
			continue
		}
		prev = "\x00"
		spins++
		if spins < 20 {
			runtime.Gosched()
		} else {
			time.Sleep(50 * time.Microsecond)
			if spins%256 == 0 && time.Now().After(deadline) {
				return gs, false
			}
		}
	}
}

// MustQuiesce is Quiesce that records an inconclusive result on r when the watchdog fires.
func (r *Run) MustQuiesce(where string) ([]G, bool) {
	gs, ok := Quiesce()
	r.Count("quiescent-points", 1)
	if !ok {
		var sb strings.Builder
		for _, g := range gs {
			if !g.Blocked() {
				sb.WriteString(g.String())
				sb.WriteString("; ")
			}
		}
		// a goroutine of the library itself that is still running after the whole watchdog period is spinning: a monitor
		// may treat that as its own kind of finding (r.OnSpin) instead of an inconclusive run
		var busy []G
		for _, g := range gs {
			if !g.Blocked() && g.InLibrary() {
				busy = append(busy, g)
			}
		}
		if len(busy) > 0 && r.OnSpin != nil {
			r.OnSpin(where, busy)
		}
		r.Inconclusive("quiesce-watchdog/"+where, "process did not become quiescent within "+QuiesceTimeout.String()+": "+sb.String())
	}
	return gs, ok
}

// LibraryGoroutines returns the goroutines of gs that run (or were started by) sc-golang library code and are
// not in the baseline set of ids.
func LibraryGoroutines(gs []G, baseline map[int]bool) []G {
	var out []G
	for _, g := range gs {
		if baseline[g.ID] {
			continue
		}
		if g.InLibrary() {
			out = append(out, g)
		}
	}
	return out
}

// IDs returns the set of goroutine ids in gs.
func IDs(gs []G) map[int]bool {
	m := make(map[int]bool, len(gs))
	for _, g := range gs {
		m[g.ID] = true
	}
	return m
}

// DescribeGs renders goroutines for a violation detail.
func DescribeGs(gs []G) string {
	var sb strings.Builder
	for _, g := range gs {
		sb.WriteString(g.String())
		sb.WriteString("\n")
	}
	return sb.String()
}
