package vk

import (
	"fmt"
	"math"
	"sort"
	"strings"

	"google.golang.org/protobuf/encoding/protojson"
	"google.golang.org/protobuf/proto"
	"google.golang.org/protobuf/reflect/protoreflect"
)

// GenOpts steers random message generation.
type GenOpts struct {
	Density  int  // probability (in %) that a field is populated
	MaxDepth int  // nesting depth for message fields
	Special  bool // allow NaN / ±Inf / -0 floats
	Unknown  bool // sometimes add unknown fields
	MaxList  int  // maximum list / map size
}

var DefaultGen = GenOpts{Density: 35, MaxDepth: 2, MaxList: 3}

// GenMessage returns a new random message of the same type as proto.
func GenMessage(r *Rand, like proto.Message, o GenOpts) proto.Message {
	m := like.ProtoReflect().New()
	fill(r, m, o, 0)
	return m.Interface()
}

func fill(r *Rand, m protoreflect.Message, o GenOpts, depth int) {
	fds := m.Descriptor().Fields()
	for i := 0; i < fds.Len(); i++ {
		fd := fds.Get(i)
		if r.Intn(100) >= o.Density {
			continue
		}
		SetRandomField(r, m, fd, o, depth)
	}
	if o.Unknown && r.Chance(1, 6) {
		// field numbers 1000+ are unused in the messages we generate
		m.SetUnknown(protoreflect.RawFields{0xc0, 0x3e, byte(r.Intn(100))}) // field 1000, varint
	}
}

// SetRandomField populates fd of m with a random non-default value (lists and maps get 1..MaxList entries).
func SetRandomField(r *Rand, m protoreflect.Message, fd protoreflect.FieldDescriptor, o GenOpts, depth int) {
	if o.MaxList <= 0 {
		o.MaxList = 3
	}
	switch {
	case fd.IsMap():
		if fd.MapValue().Message() != nil && depth >= o.MaxDepth {
			return
		}
		mp := m.Mutable(fd).Map()
		n := r.Range(1, o.MaxList)
		for j := 0; j < n; j++ {
			k := randScalar(r, fd.MapKey(), o, true).MapKey()
			var v protoreflect.Value
			if fd.MapValue().Message() != nil {
				v = mp.NewValue()
				fill(r, v.Message(), o, depth+1)
			} else {
				v = randScalar(r, fd.MapValue(), o, false)
			}
			mp.Set(k, v)
		}
	case fd.IsList():
		if fd.Message() != nil && depth >= o.MaxDepth {
			return
		}
		l := m.Mutable(fd).List()
		n := r.Range(1, o.MaxList)
		for j := 0; j < n; j++ {
			if fd.Message() != nil {
				e := l.NewElement()
				fill(r, e.Message(), o, depth+1)
				l.Append(e)
			} else {
				l.Append(randScalar(r, fd, o, false))
			}
		}
	case fd.Message() != nil:
		if depth >= o.MaxDepth {
			return
		}
		sub := m.Mutable(fd).Message()
		fillWellKnown(r, sub, o, depth)
	default:
		m.Set(fd, randScalar(r, fd, o, true))
	}
}

func fillWellKnown(r *Rand, sub protoreflect.Message, o GenOpts, depth int) {
	switch sub.Descriptor().FullName() {
	case "google.protobuf.Timestamp":
		fs := sub.Descriptor().Fields()
		sub.Set(fs.ByName("seconds"), protoreflect.ValueOfInt64(int64(r.Range(0, 100000))))
		if r.Bool() {
			sub.Set(fs.ByName("nanos"), protoreflect.ValueOfInt32(int32(r.Range(0, 999999999))))
		}
	case "google.protobuf.Duration":
		fs := sub.Descriptor().Fields()
		s := int64(r.Range(-1000, 1000))
		sub.Set(fs.ByName("seconds"), protoreflect.ValueOfInt64(s))
		if r.Bool() {
			n := int32(r.Range(0, 999999999))
			if s < 0 {
				n = -n
			}
			sub.Set(fs.ByName("nanos"), protoreflect.ValueOfInt32(n))
		}
	case "google.protobuf.FieldMask":
		// leave empty: masks inside payloads are not interpreted
	default:
		fill(r, sub, o, depth+1)
	}
}

// randScalar returns a random value for a scalar field; nonDefault avoids the zero value where possible.
func randScalar(r *Rand, fd protoreflect.FieldDescriptor, o GenOpts, nonDefault bool) protoreflect.Value {
	small := func() int64 {
		v := int64(r.Range(-4, 9))
		if nonDefault && v == 0 {
			v = 7
		}
		return v
	}
	usmall := func() uint64 {
		v := uint64(r.Range(0, 9))
		if nonDefault && v == 0 {
			v = 7
		}
		return v
	}
	fl := func() float64 {
		if o.Special && r.Chance(1, 4) {
			f := r.SpecialFloat()
			if nonDefault && f == 0 && !math.Signbit(f) {
				f = 1.5
			}
			return f
		}
		f := float64(r.Range(-40, 40)) / 4
		if nonDefault && f == 0 {
			f = 2.25
		}
		return f
	}
	switch fd.Kind() {
	case protoreflect.BoolKind:
		if nonDefault {
			return protoreflect.ValueOfBool(true)
		}
		return protoreflect.ValueOfBool(r.Bool())
	case protoreflect.EnumKind:
		vs := fd.Enum().Values()
		v := vs.Get(r.Intn(vs.Len())).Number()
		if nonDefault && v == 0 && vs.Len() > 1 {
			v = vs.Get(1).Number()
		}
		return protoreflect.ValueOfEnum(v)
	case protoreflect.Int32Kind, protoreflect.Sint32Kind, protoreflect.Sfixed32Kind:
		return protoreflect.ValueOfInt32(int32(small()))
	case protoreflect.Int64Kind, protoreflect.Sint64Kind, protoreflect.Sfixed64Kind:
		return protoreflect.ValueOfInt64(small())
	case protoreflect.Uint32Kind, protoreflect.Fixed32Kind:
		return protoreflect.ValueOfUint32(uint32(usmall()))
	case protoreflect.Uint64Kind, protoreflect.Fixed64Kind:
		return protoreflect.ValueOfUint64(usmall())
	case protoreflect.FloatKind:
		return protoreflect.ValueOfFloat32(float32(fl()))
	case protoreflect.DoubleKind:
		return protoreflect.ValueOfFloat64(fl())
	case protoreflect.StringKind:
		return protoreflect.ValueOfString(r.PickStr("a", "b", "c", "xy", "Zed", "é"))
	case protoreflect.BytesKind:
		return protoreflect.ValueOfBytes([]byte(r.PickStr("a", "b", "\x00\x01", "zz")))
	}
	panic("randScalar: not a scalar: " + string(fd.FullName()))
}

// Mutate changes m in place in one random place (set, change or clear a field, possibly nested) and returns a
// short description of what it did.
func Mutate(r *Rand, m proto.Message, o GenOpts) string {
	return mutate(r, m.ProtoReflect(), o, 0, "")
}

func mutate(r *Rand, m protoreflect.Message, o GenOpts, depth int, prefix string) string {
	fds := m.Descriptor().Fields()
	if fds.Len() == 0 {
		return "none"
	}
	// prefer populated fields half of the time
	var fd protoreflect.FieldDescriptor
	if r.Bool() {
		var pop []protoreflect.FieldDescriptor
		m.Range(func(f protoreflect.FieldDescriptor, _ protoreflect.Value) bool { pop = append(pop, f); return true })
		if len(pop) > 0 {
			sort.Slice(pop, func(i, j int) bool { return pop[i].Number() < pop[j].Number() })
			fd = pop[r.Intn(len(pop))]
		}
	}
	if fd == nil {
		fd = fds.Get(r.Intn(fds.Len()))
	}
	name := prefix + string(fd.Name())
	if m.Has(fd) && fd.Message() != nil && !fd.IsList() && !fd.IsMap() && depth < o.MaxDepth && r.Chance(2, 3) {
		return mutate(r, m.Mutable(fd).Message(), o, depth+1, name+".")
	}
	if m.Has(fd) && r.Chance(1, 3) {
		m.Clear(fd)
		return "clear:" + name
	}
	before := canonField(m, fd)
	m.Clear(fd)
	SetRandomField(r, m, fd, o, depth)
	if canonField(m, fd) == before {
		return "same:" + name
	}
	return "set:" + name
}

// JSON renders a message for samples and violation details (nil-safe, never fails).
func JSON(m proto.Message) string {
	if m == nil {
		return "<nil>"
	}
	if !m.ProtoReflect().IsValid() {
		return "<typed nil " + string(m.ProtoReflect().Descriptor().Name()) + ">"
	}
	b, err := protojson.MarshalOptions{}.Marshal(m)
	if err != nil {
		return fmt.Sprintf("<%v: %v>", m.ProtoReflect().Descriptor().Name(), err)
	}
	s := string(b)
	// protojson output is deliberately unstable in whitespace; normalise
	s = strings.ReplaceAll(s, ": ", ":")
	s = strings.ReplaceAll(s, ", ", ",")
	if u := m.ProtoReflect().GetUnknown(); len(u) > 0 {
		s += fmt.Sprintf("+unknown(%x)", []byte(u))
	}
	return s
}

// LeafPaths lists mask paths of md down to depth (through singular messages only), in declaration order.
// Each entry is a valid FieldMask path.
func LeafPaths(md protoreflect.MessageDescriptor, depth int) []string {
	var out []string
	var walk func(md protoreflect.MessageDescriptor, prefix string, d int, seen map[protoreflect.FullName]int)
	walk = func(md protoreflect.MessageDescriptor, prefix string, d int, seen map[protoreflect.FullName]int) {
		fds := md.Fields()
		for i := 0; i < fds.Len(); i++ {
			fd := fds.Get(i)
			p := prefix + string(fd.Name())
			out = append(out, p)
			if fd.Message() != nil && !fd.IsList() && !fd.IsMap() && d < depth && seen[fd.Message().FullName()] < 1 {
				seen[fd.Message().FullName()]++
				walk(fd.Message(), p+".", d+1, seen)
				seen[fd.Message().FullName()]--
			}
		}
	}
	walk(md, "", 0, map[protoreflect.FullName]int{md.FullName(): 1})
	return out
}
