// Package seqmodel is the sequential reference model of resource.Value / resource.Collection (property C01),
// written from the doc comments of pkg/resource and the property text (DESIGN.md appendix C). It is also the
// sequential specification used by the linearizability checker (C02) and the writer's log of C04/C07.
//
// The model is functional: State values are immutable (copy on write, stored messages are never mutated), so a
// state can be kept, compared and branched freely.
package seqmodel

import (
	"fmt"
	"google.golang.org/protobuf/reflect/protoreflect"
	"sort"
	"strings"
	"time"

	"google.golang.org/grpc/codes"
	"google.golang.org/protobuf/proto"

	"github.com/smart-core-os/sc-golang/internal/verif/vk"
)

// TypeInfo gives the model the message type and the (pure) caller-supplied functions used by write options.
type TypeInfo struct {
	Zero   proto.Message
	Check  func(cur proto.Message) bool // expected-check predicate; failing yields CheckCode
	Before func(old, v proto.Message)   // InterceptBefore: may rewrite v from old (delta update)
	After  func(old, nw proto.Message)  // InterceptAfter: may rewrite new from old (computed fields)
}

// CheckCode is the status code of the error returned by a failing expected-check in these workloads.
const CheckCode = codes.OutOfRange

// Config is the resource configuration the model mirrors.
type Config struct {
	IsValue     bool     // a Value: one register, Set creates, no ids
	Writable    []string // resource writable fields; NilWritable = all
	NilWritable bool
	LowerIDs    bool // id interceptor: strings.ToLower
}

// Item is a stored message with its change time.
type Item struct {
	Msg  proto.Message
	Time time.Time
}

// State is id -> item. For a Value the single key is "".
type State map[string]Item

func (s State) with(id string, it Item) State {
	n := make(State, len(s)+1)
	for k, v := range s {
		n[k] = v
	}
	n[id] = it
	return n
}

func (s State) without(id string) State {
	n := make(State, len(s))
	for k, v := range s {
		if k != id {
			n[k] = v
		}
	}
	return n
}

// IDs returns the sorted ids.
func (s State) IDs() []string {
	ids := make([]string, 0, len(s))
	for k := range s {
		ids = append(ids, k)
	}
	sort.Strings(ids)
	return ids
}

// Render gives a canonical string of the state (used for distinct-state counting).
func (s State) Render() string {
	var sb strings.Builder
	for _, id := range s.IDs() {
		fmt.Fprintf(&sb, "%q=%s;", id, vk.JSON(s[id].Msg))
	}
	return sb.String()
}

// OpKind names an operation.
type OpKind string

const (
	Get    OpKind = "get"
	List   OpKind = "list"
	Set    OpKind = "set"    // Value.Set
	Add    OpKind = "add"    // Collection.Add
	Update OpKind = "update" // Collection.Update
	Delete OpKind = "delete" // Collection.Delete
)

// Opts are the write/read options of one call, as plain data (JSON-able for replay files).
type Opts struct {
	ReadMask    []string `json:"readMask,omitempty"`
	HasReadMask bool     `json:"hasReadMask,omitempty"`

	UpdateMask      []string `json:"updateMask,omitempty"`
	HasUpdateMask   bool     `json:"hasUpdateMask,omitempty"`
	ResetMask       []string `json:"resetMask,omitempty"`
	HasResetMask    bool     `json:"hasResetMask,omitempty"`
	MoreWritable    []string `json:"moreWritable,omitempty"`
	HasMoreWritable bool     `json:"hasMoreWritable,omitempty"`
	AllWritable     bool     `json:"allWritable,omitempty"`

	ExpectValue    proto.Message `json:"-"`
	ExpectValueStr string        `json:"expectValue,omitempty"`
	ExpectCheck    bool          `json:"expectCheck,omitempty"`
	ExpectAbsent   bool          `json:"expectAbsent,omitempty"`
	CreateIfAbsent bool          `json:"createIfAbsent,omitempty"`
	AllowMissing   bool          `json:"allowMissing,omitempty"`
	GenID          bool          `json:"genID,omitempty"`
	IDCallback     bool          `json:"idCallback,omitempty"`
	// IncludeCheck (List): only items satisfying Type.Check are listed (resource.WithInclude).
	IncludeCheck bool `json:"includeCheck,omitempty"`
	// PlainCheckErr (with ExpectCheck): the check fails with a plain Go error instead of a status error.
	PlainCheckErr bool `json:"plainCheckErr,omitempty"`
	// IDIntoField (with IDCallback): the id callback also writes the id into this string field of the message that
	// was handed to the write, the way a model fills in the id of what it creates.
	IDIntoField string     `json:"idIntoField,omitempty"`
	CreatedCB   bool       `json:"createdCallback,omitempty"`
	Before      bool       `json:"interceptBefore,omitempty"`
	After       bool       `json:"interceptAfter,omitempty"`
	WriteTime   *time.Time `json:"writeTime,omitempty"`
}

// Class summarises which options are present, for violation keys and distinct counting.
func (o Opts) Class() string {
	var p []string
	add := func(b bool, s string) {
		if b {
			p = append(p, s)
		}
	}
	add(o.HasReadMask, "rmask")
	add(o.HasUpdateMask, "umask")
	add(o.HasResetMask, "reset")
	add(o.HasMoreWritable, "morew")
	add(o.AllWritable, "allw")
	add(o.ExpectValue != nil, "expval")
	add(o.ExpectCheck, "expchk")
	add(o.ExpectAbsent, "expabs")
	add(o.CreateIfAbsent, "create")
	add(o.AllowMissing, "allowmiss")
	add(o.GenID, "genid")
	add(o.IDCallback, "idcb")
	add(o.IDIntoField != "", "id-into-msg")
	add(o.CreatedCB, "createdcb")
	add(o.Before, "before")
	add(o.After, "after")
	add(o.WriteTime != nil, "wtime")
	if len(p) == 0 {
		return "plain"
	}
	return strings.Join(p, "+")
}

// Reduced is a coarse class of the option subset for violation keys: which families of options are present.
func (o Opts) Reduced() string {
	var p []string
	if o.HasUpdateMask || o.HasResetMask || o.HasMoreWritable || o.AllWritable || o.HasReadMask {
		p = append(p, "masks")
	}
	if o.ExpectValue != nil || o.ExpectCheck || o.ExpectAbsent {
		p = append(p, "preconditions")
	}
	if o.Before || o.After {
		p = append(p, "interceptors")
	}
	if o.GenID {
		p = append(p, "genid")
	}
	if len(p) == 0 {
		return "plain"
	}
	return strings.Join(p, "+")
}

// Op is one call.
type Op struct {
	Kind   OpKind        `json:"kind"`
	ID     string        `json:"id"`
	Val    proto.Message `json:"-"`
	ValStr string        `json:"val,omitempty"`
	Opts   Opts          `json:"opts"`
}

func (o Op) String() string {
	extra := ""
	if o.Opts.HasUpdateMask {
		extra += fmt.Sprintf(" umask=%q", o.Opts.UpdateMask)
	}
	if o.Opts.HasResetMask {
		extra += fmt.Sprintf(" reset=%q", o.Opts.ResetMask)
	}
	if o.Opts.HasReadMask {
		extra += fmt.Sprintf(" rmask=%q", o.Opts.ReadMask)
	}
	if o.Opts.HasMoreWritable {
		extra += fmt.Sprintf(" morew=%q", o.Opts.MoreWritable)
	}
	if o.Opts.ExpectValue != nil {
		extra += " expect=" + vk.JSON(o.Opts.ExpectValue)
	}
	return fmt.Sprintf("%s(%q,%s)[%s%s]", o.Kind, o.ID, vk.JSON(o.Val), o.Opts.Class(), extra)
}

// Result is what the real call returned and what the callbacks observed.
type Result struct {
	Msg        proto.Message   // returned message (write result, Get result)
	Found      bool            // Collection.Get's second result
	List       []proto.Message // List result
	Code       codes.Code      // codes.OK on success
	Err        string
	GenIDs     []string // ids passed to the id callback
	CreatedCBs int      // calls of the created callback
	BeforeN    int      // calls of the InterceptBefore function
	AfterN     int      // calls of the InterceptAfter function
	// IsPlainCheckErr: the returned error is (wraps) ErrPlainCheck
	IsPlainCheckErr bool

	written proto.Message // the message handed to the write (the id callback may fill in the id)
}

// Verdict of comparing a real Result with the model.
type Verdict struct {
	OK     bool
	Clause string // short clause name for violation keys: return, error-class, ...
	Why    string
	// Success tells whether the call is a success in the model's eyes (after accepting the real result).
	Success bool
	// Event the write must have published (nil for reads and failures).
	Event *Event
}

// Event is the change a successful write publishes.
type Event struct {
	ID   string
	Type string // ADD, UPDATE, REMOVE
	Old  proto.Message
	New  proto.Message
	Time *time.Time // the write time if one was given
}

// Model bundles config and type info.
type Model struct {
	Cfg  Config
	Type TypeInfo
}

func (m *Model) icpt(id string) string {
	if m.Cfg.LowerIDs {
		return strings.ToLower(id)
	}
	return id
}

func (m *Model) project(msg proto.Message, o Opts) proto.Message {
	if msg == nil {
		return nil
	}
	if !o.HasReadMask {
		return msg
	}
	return vk.RefProject(msg, o.ReadMask, false)
}

// Apply checks the real result of op in state s against the model and returns the verdict and the next state.
// When the verdict is not OK the next state is the model's own expectation (so a run can continue).
func (m *Model) Apply(s State, op Op, got Result) (Verdict, State) {
	switch op.Kind {
	case Get:
		return m.applyGet(s, op, got), s
	case List:
		return m.applyList(s, op, got), s
	case Set, Add, Update:
		return m.applyWrite(s, op, got)
	case Delete:
		return m.applyDelete(s, op, got)
	}
	return Verdict{Clause: "bad-op", Why: "unknown op " + string(op.Kind)}, s
}

func (m *Model) applyGet(s State, op Op, got Result) Verdict {
	id := op.ID
	if m.Cfg.IsValue {
		id = ""
	} else {
		id = m.icpt(id)
	}
	it, ok := s[id]
	if got.Code != codes.OK {
		return Verdict{Clause: "get-error", Why: "Get returned an error: " + got.Err}
	}
	if !m.Cfg.IsValue && got.Found != ok {
		return Verdict{Clause: "get-found", Why: fmt.Sprintf("Get(%q) found=%v, model says %v", op.ID, got.Found, ok)}
	}
	if !ok {
		if got.Msg != nil && got.Msg.ProtoReflect().IsValid() {
			return Verdict{Clause: "get-value", Why: fmt.Sprintf("Get of an absent item returned %s", vk.JSON(got.Msg))}
		}
		return Verdict{OK: true}
	}
	want := m.project(it.Msg, op.Opts)
	if !vk.SameMessage(want, got.Msg) {
		return Verdict{Clause: "get-value", Why: fmt.Sprintf("Get(%q) = %s, model says %s", op.ID, vk.JSON(got.Msg), vk.JSON(want))}
	}
	return Verdict{OK: true}
}

func (m *Model) applyList(s State, op Op, got Result) Verdict {
	var want []proto.Message
	for _, id := range s.IDs() {
		if op.Opts.IncludeCheck && m.Type.Check != nil && !m.Type.Check(s[id].Msg) {
			continue // the include predicate is asked about the stored item, before any read mask
		}
		want = append(want, m.project(s[id].Msg, op.Opts))
	}
	if !vk.SameList(want, got.List) {
		// distinguish order from content
		clause := "list-content"
		if len(want) == len(got.List) {
			a, b := renderSorted(want), renderSorted(got.List)
			if a == b {
				clause = "list-order"
			}
		}
		return Verdict{Clause: clause, Why: fmt.Sprintf("List = %s, model says %s", vk.ListJSON(got.List), vk.ListJSON(want))}
	}
	return Verdict{OK: true}
}

func renderSorted(l []proto.Message) string {
	var ss []string
	for _, x := range l {
		ss = append(ss, vk.JSON(x))
	}
	sort.Strings(ss)
	return strings.Join(ss, "|")
}

// checkCodeOf is the status code a failing expected-check shows: the workload's status error, or Unknown for the
// plain Go error.
func checkCodeOf(o Opts) codes.Code {
	if o.PlainCheckErr {
		return codes.Unknown
	}
	return CheckCode
}

// checkErrIdentity: when the failing expected-check is the only reason a call can fail and it returned a plain Go
// error, that error itself is what the call returns (errors.Is), as documented on WithExpectedCheck.
func checkErrIdentity(op Op, o Opts, fail []codes.Code, checkFails bool, got Result) (Verdict, bool) {
	if checkFails && o.PlainCheckErr && len(fail) == 1 && got.Code == codes.Unknown && !got.IsPlainCheckErr {
		return Verdict{Clause: "check-error-identity", Why: fmt.Sprintf("%v failed because its expected-check returned a plain error; the call returned %q, which is not (and does not wrap) that error", op, got.Err)}, true
	}
	return Verdict{}, false
}

func codeIn(c codes.Code, set []codes.Code) bool {
	for _, x := range set {
		if x == c {
			return true
		}
	}
	return false
}

func (m *Model) applyWrite(s State, op Op, got Result) (Verdict, State) {
	o := op.Opts
	if op.Kind == Add {
		o.ExpectAbsent, o.CreateIfAbsent = true, true
	}
	id := ""
	if !m.Cfg.IsValue {
		id = m.icpt(op.ID)
	}

	// --- which failures apply
	var fail []codes.Code
	var mayFail []codes.Code
	writable, nilW := m.Cfg.Writable, m.Cfg.NilWritable
	if o.AllWritable {
		nilW = true
	} else if !nilW && o.HasMoreWritable {
		writable = append(append([]string{}, writable...), o.MoreWritable...)
	}
	md := op.Val.ProtoReflect().Descriptor()
	// mask validation comes from the independent reference: validity + overlap with writable fields
	probe := vk.RefMerge(nil, op.Val, o.UpdateMask, !o.HasUpdateMask, writable, nilW, nil)
	if probe.MustReject {
		fail = append(fail, codes.InvalidArgument)
	} else if probe.MayReject {
		mayFail = append(mayFail, codes.InvalidArgument)
	}
	if o.HasResetMask && !vk.MaskValid(md, o.ResetMask) {
		fail = append(fail, codes.Internal, codes.InvalidArgument)
	}

	generated := false
	if !m.Cfg.IsValue && id == "" && o.GenID {
		generated = true
		// id generation gives up (Aborted) when the random source keeps producing ids that are in use
		mayFail = append(mayFail, codes.Aborted)
	}
	checkFails := false
	var cur Item
	present := false
	if !generated {
		cur, present = s[id]
	}
	created := false
	var old proto.Message
	switch {
	case m.Cfg.IsValue:
		if present {
			old = cur.Msg
		}
		if o.ExpectAbsent && present && old != nil {
			fail = append(fail, codes.AlreadyExists)
		}
	case present:
		old = cur.Msg
		if o.ExpectAbsent {
			fail = append(fail, codes.AlreadyExists)
		}
	default:
		if !o.CreateIfAbsent {
			fail = append(fail, codes.NotFound)
		}
		created = true
		old = m.Type.Zero.ProtoReflect().New().Interface()
	}
	if o.ExpectValue != nil {
		if old == nil || !proto.Equal(old, o.ExpectValue) {
			fail = append(fail, codes.FailedPrecondition)
		}
	}
	if o.ExpectCheck && m.Type.Check != nil {
		if !m.Type.Check(old) {
			fail = append(fail, checkCodeOf(o))
			checkFails = true
		}
	}

	if len(fail) > 0 {
		if got.Code == codes.OK {
			return Verdict{Clause: "accepted-invalid", Why: fmt.Sprintf("%v succeeded (returned %s) but the model says it must fail with one of %v", op, vk.JSON(got.Msg), fail)}, s
		}
		if v, bad := checkErrIdentity(op, o, fail, checkFails, got); bad {
			return v, s
		}
		if !codeIn(got.Code, fail) && !codeIn(got.Code, mayFail) {
			// (a call with several reasons to fail may report any of them, e.g. id generation giving up before a
			// precondition is looked at)
			return Verdict{Clause: "error-class", Why: fmt.Sprintf("%v failed with %v (%s), model allows %v", op, got.Code, got.Err, fail)}, s
		}
		if got.Msg != nil && got.Msg.ProtoReflect().IsValid() {
			return Verdict{Clause: "value-with-error", Why: fmt.Sprintf("%v failed with %v but also returned %s", op, got.Code, vk.JSON(got.Msg))}, s
		}
		if got.BeforeN != 0 || got.AfterN != 0 {
			// documented: preconditions are checked before InterceptBefore; a failing call must not run interceptors
			return Verdict{Clause: "interceptor-on-failed-call", Why: fmt.Sprintf("%v failed with %v but the interceptors ran (before %d, after %d times)", op, got.Code, got.BeforeN, got.AfterN)}, s
		}
		return Verdict{OK: true}, s
	}
	if got.Code != codes.OK {
		if codeIn(got.Code, mayFail) {
			return Verdict{OK: true}, s
		}
		return Verdict{Clause: "rejected-valid", Why: fmt.Sprintf("%v failed with %v (%s) but the model says it succeeds", op, got.Code, got.Err)}, s
	}

	// --- success path
	if generated {
		if o.IDCallback {
			if len(got.GenIDs) != 1 {
				return Verdict{Clause: "genid-callback-count", Why: fmt.Sprintf("%v: id callback called %d times (%v), want exactly once", op, len(got.GenIDs), got.GenIDs)}, s
			}
			id = got.GenIDs[0]
			if id == "" {
				return Verdict{Clause: "genid-empty", Why: fmt.Sprintf("%v: generated id is empty", op)}, s
			}
			if _, used := s[id]; used {
				return Verdict{Clause: "genid-duplicate", Why: fmt.Sprintf("%v: generated id %q is already in use", op, id)}, s
			}
			if _, used := s[m.icpt(id)]; used {
				return Verdict{Clause: "genid-duplicate", Why: fmt.Sprintf("%v: generated id %q maps onto an id in use", op, id)}, s
			}
		}
	} else if len(got.GenIDs) != 0 {
		return Verdict{Clause: "genid-callback-count", Why: fmt.Sprintf("%v: id callback called (%v) although no id had to be generated", op, got.GenIDs)}, s
	}
	if o.CreatedCB && !m.Cfg.IsValue {
		want := 0
		if created {
			want = 1
		}
		if got.CreatedCBs != want {
			return Verdict{Clause: "created-callback-count", Why: fmt.Sprintf("%v: created callback called %d times, want %d", op, got.CreatedCBs, want)}, s
		}
	}

	if wb, wa := b2i(o.Before && m.Type.Before != nil), b2i(o.After && m.Type.After != nil); got.BeforeN != wb || got.AfterN != wa {
		return Verdict{Clause: "interceptor-count", Why: fmt.Sprintf("%v succeeded with interceptors run before=%d after=%d times, want %d and %d", op, got.BeforeN, got.AfterN, wb, wa)}, s
	}
	v := proto.Clone(op.Val)
	if generated && o.IDCallback && o.IDIntoField != "" {
		// the callback wrote the generated id into the message before it was merged
		if fd := v.ProtoReflect().Descriptor().Fields().ByName(protoreflect.Name(o.IDIntoField)); fd != nil {
			v.ProtoReflect().Set(fd, protoreflect.ValueOfString(id))
		}
	}
	if o.Before && m.Type.Before != nil {
		var oldArg proto.Message
		if old != nil {
			oldArg = proto.Clone(old)
		}
		m.Type.Before(oldArg, v)
	}
	var reset []string
	if o.HasResetMask {
		reset = o.ResetMask
	}
	spec := vk.RefMerge(old, v, o.UpdateMask, !o.HasUpdateMask, writable, nilW, reset)
	if spec.MustReject { // interceptor cannot change mask validity
		return Verdict{Clause: "model-internal", Why: "RefMerge rejected after validation passed: " + spec.Why}, s
	}
	if got.Msg == nil || !got.Msg.ProtoReflect().IsValid() {
		return Verdict{Clause: "return", Why: fmt.Sprintf("%v succeeded but returned no message", op)}, s
	}
	// InterceptAfter runs on the merged message: undo nothing, instead apply After to each candidate and compare.
	var accepted proto.Message
	var firstWhy string
	cands := spec.Candidates
	if spec.NoChange {
		base := old
		if base == nil {
			base = m.Type.Zero.ProtoReflect().New().Interface()
		}
		c := proto.Clone(base)
		for _, rp := range reset {
			if h, fd, ok := vk.GetPath(c.ProtoReflect(), rp); ok {
				h.Clear(fd)
			}
		}
		cands = []proto.Message{proto.Clone(base), c}
	}
	for _, c := range cands {
		c = proto.Clone(c)
		if o.After && m.Type.After != nil {
			var oldArg proto.Message
			if old != nil {
				oldArg = proto.Clone(old)
			}
			m.Type.After(oldArg, c)
		}
		if vk.SameMessage(c, got.Msg) || vk.EqualModuloAncestors(c, got.Msg, append(append([]string{}, spec.Regions...), reset...)) {
			// the stored message is what the implementation returned (presence of empty ancestor messages of a
			// written region is not fixed by the property)
			accepted = proto.Clone(got.Msg)
			break
		}
		if firstWhy == "" {
			firstWhy = vk.JSON(c)
		}
	}
	if accepted == nil {
		return Verdict{Clause: "return", Why: fmt.Sprintf("%v on %s returned %s, model says %s", op, vk.JSON(old), vk.JSON(got.Msg), firstWhy)}, s
	}
	if generated && !o.IDCallback {
		// id unknown to the caller: it must be the single new key, resolved by the caller through List; the
		// model cannot name it. Callers always pass IDCallback together with GenID in sequences they continue.
		return Verdict{OK: true, Success: true}, s
	}
	typ := "UPDATE"
	var evOld proto.Message = old
	if created || (m.Cfg.IsValue && !present) {
		typ, evOld = "ADD", nil
	}
	ev := &Event{ID: id, Type: typ, Old: evOld, New: accepted, Time: o.WriteTime}
	it := Item{Msg: accepted}
	if o.WriteTime != nil {
		it.Time = *o.WriteTime
	}
	return Verdict{OK: true, Success: true, Event: ev}, s.with(id, it)
}

func (m *Model) applyDelete(s State, op Op, got Result) (Verdict, State) {
	o := op.Opts
	id := m.icpt(op.ID)
	cur, present := s[id]
	if !present {
		if o.AllowMissing {
			if got.Code != codes.OK {
				return Verdict{Clause: "delete-absent", Why: fmt.Sprintf("%v of an absent id with allow-missing failed with %v", op, got.Code)}, s
			}
			if got.Msg != nil && got.Msg.ProtoReflect().IsValid() {
				return Verdict{Clause: "delete-absent", Why: fmt.Sprintf("%v of an absent id returned %s", op, vk.JSON(got.Msg))}, s
			}
			return Verdict{OK: true}, s
		}
		if got.Code != codes.NotFound {
			return Verdict{Clause: "delete-absent", Why: fmt.Sprintf("%v of an absent id: got %v (%s), want NotFound", op, got.Code, got.Err)}, s
		}
		return Verdict{OK: true}, s
	}
	var fail []codes.Code
	checkFails := false
	if o.ExpectCheck && m.Type.Check != nil && !m.Type.Check(cur.Msg) {
		fail = append(fail, checkCodeOf(o))
		checkFails = true
	}
	if o.ExpectValue != nil && !proto.Equal(cur.Msg, o.ExpectValue) {
		fail = append(fail, codes.FailedPrecondition)
	}
	if len(fail) > 0 {
		if got.Code == codes.OK {
			return Verdict{Clause: "accepted-invalid", Why: fmt.Sprintf("%v succeeded but the model says it must fail with one of %v", op, fail)}, s
		}
		if v, bad := checkErrIdentity(op, o, fail, checkFails, got); bad {
			return v, s
		}
		if !codeIn(got.Code, fail) {
			return Verdict{Clause: "error-class", Why: fmt.Sprintf("%v failed with %v (%s), model allows %v", op, got.Code, got.Err, fail)}, s
		}
		return Verdict{OK: true}, s // the message returned alongside the error is not asserted
	}
	if got.Code != codes.OK {
		return Verdict{Clause: "rejected-valid", Why: fmt.Sprintf("%v failed with %v (%s) but the model says it succeeds", op, got.Code, got.Err)}, s
	}
	if !vk.SameMessage(cur.Msg, got.Msg) {
		return Verdict{Clause: "return", Why: fmt.Sprintf("%v returned %s, model says the removed item is %s", op, vk.JSON(got.Msg), vk.JSON(cur.Msg))}, s
	}
	return Verdict{OK: true, Success: true, Event: &Event{ID: id, Type: "REMOVE", Old: cur.Msg, Time: o.WriteTime}}, s.without(id)
}

func b2i(b bool) int {
	if b {
		return 1
	}
	return 0
}
