package seqmodel

import (
	"errors"
	"google.golang.org/protobuf/reflect/protoreflect"

	"google.golang.org/grpc/codes"
	"google.golang.org/grpc/status"
	"google.golang.org/protobuf/proto"
	"google.golang.org/protobuf/types/known/fieldmaskpb"

	"github.com/smart-core-os/sc-golang/pkg/resource"
)

// ErrCheck is the error a failing expected-check returns in these workloads.
var ErrCheck = status.Error(CheckCode, "expected-check failed")

// ErrPlainCheck is a plain Go error (no gRPC status) returned by the expected-check when Opts.PlainCheckErr is set:
// "the error returned from fn will be returned from the update call" means this very error comes back.
var ErrPlainCheck = errors.New("expected-check failed (plain error)")

// ResourceOptions returns the resource options mirroring cfg (without clock, rng, initial contents).
func (m *Model) ResourceOptions() []resource.Option {
	var opts []resource.Option
	if !m.Cfg.NilWritable {
		opts = append(opts, resource.WithWritableFields(&fieldmaskpb.FieldMask{Paths: append([]string{}, m.Cfg.Writable...)}))
	}
	if m.Cfg.LowerIDs {
		opts = append(opts, resource.WithIDInterceptor(lower))
	}
	return opts
}

func lower(s string) string {
	b := []byte(s)
	for i, c := range b {
		if 'A' <= c && c <= 'Z' {
			b[i] = c + 'a' - 'A'
		}
	}
	return string(b)
}

// ReadOptions converts o to resource read options.
func (o Opts) ReadOptions() []resource.ReadOption {
	return o.readOptions(nil)
}

func (o Opts) readOptions(chk func(proto.Message) bool) []resource.ReadOption {
	var ro []resource.ReadOption
	if o.IncludeCheck && chk != nil {
		ro = append(ro, resource.WithInclude(func(_ string, m proto.Message) bool { return chk(m) }))
	}
	if o.HasReadMask {
		ro = append(ro, resource.WithReadMask(&fieldmaskpb.FieldMask{Paths: append([]string{}, o.ReadMask...)}))
	}
	return ro
}

// WriteOptions converts o to resource write options; callbacks record into res.
func (m *Model) WriteOptions(o Opts, res *Result) []resource.WriteOption {
	var wo []resource.WriteOption
	if o.HasUpdateMask {
		wo = append(wo, resource.WithUpdateMask(&fieldmaskpb.FieldMask{Paths: append([]string{}, o.UpdateMask...)}))
	}
	if o.HasResetMask {
		wo = append(wo, resource.WithResetMask(&fieldmaskpb.FieldMask{Paths: append([]string{}, o.ResetMask...)}))
	}
	if o.HasMoreWritable {
		wo = append(wo, resource.WithMoreWritableFields(&fieldmaskpb.FieldMask{Paths: append([]string{}, o.MoreWritable...)}))
	}
	if o.AllWritable {
		wo = append(wo, resource.WithAllFieldsWritable())
	}
	if o.ExpectValue != nil {
		wo = append(wo, resource.WithExpectedValue(proto.Clone(o.ExpectValue)))
	}
	if o.ExpectCheck {
		chk := m.Type.Check
		wo = append(wo, resource.WithExpectedCheck(func(cur proto.Message) error {
			if chk != nil && !chk(cur) {
				if o.PlainCheckErr {
					return ErrPlainCheck
				}
				return ErrCheck
			}
			return nil
		}))
	}
	if o.ExpectAbsent {
		wo = append(wo, resource.WithExpectAbsent())
	}
	if o.CreateIfAbsent {
		wo = append(wo, resource.WithCreateIfAbsent())
	}
	if o.AllowMissing {
		wo = append(wo, resource.WithAllowMissing(true))
	}
	if o.GenID {
		wo = append(wo, resource.WithGenIDIfAbsent())
	}
	if o.IDCallback {
		wo = append(wo, resource.WithIDCallback(func(id string) {
			res.GenIDs = append(res.GenIDs, id)
			if o.IDIntoField != "" && res.written != nil {
				if fd := res.written.ProtoReflect().Descriptor().Fields().ByName(protoreflect.Name(o.IDIntoField)); fd != nil {
					res.written.ProtoReflect().Set(fd, protoreflect.ValueOfString(id))
				}
			}
		}))
	}
	if o.CreatedCB {
		wo = append(wo, resource.WithCreatedCallback(func() { res.CreatedCBs++ }))
	}
	if o.Before && m.Type.Before != nil {
		f := m.Type.Before
		wo = append(wo, resource.InterceptBefore(func(old, v proto.Message) { res.BeforeN++; f(old, v) }))
	}
	if o.After && m.Type.After != nil {
		f := m.Type.After
		wo = append(wo, resource.InterceptAfter(func(old, nw proto.Message) { res.AfterN++; f(old, nw) }))
	}
	if o.WriteTime != nil {
		wo = append(wo, resource.WithWriteTime(*o.WriteTime))
	}
	return wo
}

func setErr(res *Result, err error) {
	if err == nil {
		res.Code = codes.OK
		return
	}
	res.Err = err.Error()
	res.IsPlainCheckErr = errors.Is(err, ErrPlainCheck)
	var se interface{ GRPCStatus() *status.Status }
	if errors.As(err, &se) {
		res.Code = se.GRPCStatus().Code()
		return
	}
	res.Code = codes.Unknown
}

// ExecValue runs op against a real Value. The message passed to a write is a fresh clone of op.Val.
func (m *Model) ExecValue(v *resource.Value, op Op) Result {
	var res Result
	switch op.Kind {
	case Get:
		res.Msg = v.Get(op.Opts.ReadOptions()...)
	case Set:
		msg, err := v.Set(proto.Clone(op.Val), m.WriteOptions(op.Opts, &res)...)
		res.Msg = msg
		setErr(&res, err)
	default:
		panic("ExecValue: bad op " + string(op.Kind))
	}
	return res
}

// ExecCollection runs op against a real Collection.
func (m *Model) ExecCollection(c *resource.Collection, op Op) Result {
	var res Result
	switch op.Kind {
	case Get:
		res.Msg, res.Found = c.Get(op.ID, op.Opts.ReadOptions()...)
	case List:
		res.List = c.List(op.Opts.readOptions(m.Type.Check)...)
	case Add:
		res.written = proto.Clone(op.Val)
		msg, err := c.Add(op.ID, res.written, m.WriteOptions(op.Opts, &res)...)
		res.Msg = msg
		setErr(&res, err)
	case Update:
		res.written = proto.Clone(op.Val)
		msg, err := c.Update(op.ID, res.written, m.WriteOptions(op.Opts, &res)...)
		res.Msg = msg
		setErr(&res, err)
	case Delete:
		msg, err := c.Delete(op.ID, m.WriteOptions(op.Opts, &res)...)
		res.Msg = msg
		setErr(&res, err)
	default:
		panic("ExecCollection: bad op " + string(op.Kind))
	}
	return res
}
