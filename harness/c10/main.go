// Monitor for C10: subscriptions and the event bus shut down cleanly under any timing.
//
// Cancels are injected while senders, subscribers and stoppers are parked at the hook points of Bus.Send /
// Bus.Listen / listener.stop and of the resources' subscribe path, and at random instants under stress. After
// every scenario everything is cancelled and the process is brought to quiescence: every subscription channel
// must be closed, every writer must have returned, no goroutine started by the library may be left, and the
// process must not have died (the driver turns a dead worker into a violation of the guarded key).
package main

import (
	"context"
	"fmt"
	"runtime"
	"sort"
	"strings"
	"sync"
	"sync/atomic"
	"time"

	"google.golang.org/protobuf/proto"

	"github.com/smart-core-os/sc-golang/internal/minibus"
	"github.com/smart-core-os/sc-golang/internal/testproto"
	"github.com/smart-core-os/sc-golang/internal/verif/vk"
	"github.com/smart-core-os/sc-golang/pkg/resource"
)

func main() { vk.Main("C10", run) }

type tat = testproto.TestAllTypes

type clk struct{}

func (clk) Now() time.Time { return time.Unix(1, 0) }

func run(r *vk.Run) {
	r.Describe("forced part: for Bus, Value.Pull, Collection.Pull and PullID (lossy and backpressured, seed and updates-only) a cancel is injected while a sender is parked at bus.send.afterSnapshot / bus.send.beforeListener (each listener index), a subscriber at bus.listen.beforeRegister / *.sub.afterSnapshot, a stopper at bus.listener.stop, and while a send is blocked on a consumer that stopped receiving; stress part: 0-8 subscribers with mixed options, 0-3 writers, cancels at random instants, consumers that stop receiving and cancel later, pre-cancelled contexts, PullID whose item is removed. After each scenario: every channel closed, every writer returned, no library goroutine left (goroutine dump vs baseline) at the quiescent point; bus events reach every listener that was live for the whole send exactly once and in per-sender order. Distinct = scenario descriptor (forced) / (options multiset, cancel pattern) (stress).",
		"a panic kills the worker process: every scenario runs behind r.Guard and the driver attributes the death to the guarded key",
		"quiescence (all goroutines blocked in two identical dumps) decides closed / returned / leaked; no sleeps")
	r.OnSpin = func(where string, busy []vk.G) {
		// "every goroutine started for it terminates": one that is still running a minute after everything else went
		// quiet never will
		r.Violation("C10/spin/"+where, fmt.Sprintf("at %s the process did not become quiescent within the watchdog period because goroutines of the library keep running (spinning):\n%s", where, vk.DescribeGs(busy)), map[string]any{"where": where})
		r.GiveUp()
	}
	busForced(r)
	busStress(r)
	resForced(r)
	resStress(r)
	pullIDRemovalWhilePaused(r)
	r.Require("bus-forced-scenarios", 20)
	r.Require("resource-forced-scenarios", 50)
	r.Require("stress-scenarios", 100)
}

// ---------------------------------------------------------------------------------------------------------
// leak / closure helpers

func baseline() map[int]bool { return vk.IDs(vk.Goroutines()) }

// finalCheck is called after everything was cancelled: quiesce, then look for library goroutines not in base.
func finalCheck(r *vk.Run, key string, base map[int]bool, desc string, replay any) bool {
	gs, ok := r.MustQuiesce("c10-final")
	if !ok {
		return false
	}
	leaked := vk.LibraryGoroutines(gs, base)
	if len(leaked) > 0 {
		// goroutines of the library's 1 s log-only alarm end by themselves; anything else is a leak
		var real []vk.G
		for _, g := range leaked {
			if g.Has("resource.timeoutAlarm") {
				continue
			}
			real = append(real, g)
		}
		if len(real) > 0 {
			r.Violation("C10/leak/"+key, fmt.Sprintf("%s: goroutines started by the library are still alive at the final quiescent point:\n%s", desc, vk.DescribeGs(real)), replay)
			return false
		}
	}
	return true
}

// ---------------------------------------------------------------------------------------------------------
// bus level

type busListener struct {
	ctx      context.Context
	cancel   context.CancelFunc
	ch       <-chan any
	mu       sync.Mutex
	got      []string
	closed   bool
	listenAt int64
	cancelAt int64 // 0 = not cancelled
	stopRecv atomic.Bool
}

func (l *busListener) consume() {
	go func() {
		for {
			if l.stopRecv.Load() {
				return
			}
			e, ok := <-l.ch
			if !ok {
				l.mu.Lock()
				l.closed = true
				l.mu.Unlock()
				return
			}
			l.mu.Lock()
			l.got = append(l.got, e.(string))
			l.mu.Unlock()
		}
	}()
}

func (l *busListener) isClosed() bool { l.mu.Lock(); defer l.mu.Unlock(); return l.closed }

func busForced(r *vk.Run) {
	sched := vk.NewSched()
	defer sched.Close()
	type sc struct {
		Window   string `json:"window"`
		NL       int    `json:"listeners"`
		ParkIdx  int    `json:"parkIndex"` // for beforeListener: which listener's turn
		Cancel   []int  `json:"cancel"`    // listeners cancelled while the sender is parked
		AddNew   bool   `json:"addNew"`    // a new listener registers while the sender is parked
		StopPark bool   `json:"stopPark"`  // the stopper of the cancelled listener is itself parked at bus.listener.stop until after the send
	}
	var scs []sc
	for nl := 1; nl <= 3; nl++ {
		for mask := 0; mask < 1<<nl; mask++ {
			var cancel []int
			for i := 0; i < nl; i++ {
				if mask>>i&1 == 1 {
					cancel = append(cancel, i)
				}
			}
			for _, addNew := range []bool{false, true} {
				scs = append(scs, sc{Window: "bus.send.afterSnapshot", NL: nl, Cancel: cancel, AddNew: addNew})
				for idx := 0; idx < nl; idx++ {
					scs = append(scs, sc{Window: "bus.send.beforeListener", NL: nl, ParkIdx: idx, Cancel: cancel, AddNew: addNew})
				}
				if len(cancel) > 0 {
					scs = append(scs, sc{Window: "bus.send.afterSnapshot", NL: nl, Cancel: cancel, AddNew: addNew, StopPark: true})
				}
			}
		}
	}
	for i, s := range scs {
		if !r.Mine(i) {
			continue
		}
		key := fmt.Sprintf("bus/%s", s.Window)
		if s.StopPark {
			key += "+stopper-parked"
		}
		if !r.Guard("C10/panic/"+key, s) {
			continue
		}
		base := baseline()
		var bus minibus.Bus
		var ls []*busListener
		for k := 0; k < s.NL; k++ {
			ctx, cancel := context.WithCancel(context.Background())
			l := &busListener{ctx: ctx, cancel: cancel}
			l.ch = bus.Listen(ctx)
			l.consume()
			ls = append(ls, l)
		}
		vk.Quiesce()
		seen := 0
		park := sched.ParkAt(s.Window, func(key, val any) bool {
			if s.Window != "bus.send.beforeListener" {
				return true
			}
			seen++
			return seen-1 == s.ParkIdx
		})
		sendCtx := context.Background()
		var okSend bool
		ts := vk.Go(func() { okSend = bus.Send(sendCtx, "e1") })
		vk.Quiesce()
		reached := park.Arrived()
		var stopParks []*vk.Park
		for _, ci := range s.Cancel {
			if s.StopPark {
				stopParks = append(stopParks, sched.ParkAt("bus.listener.stop", nil))
			}
			ls[ci].cancel()
		}
		var extra *busListener
		if s.AddNew {
			ctx, cancel := context.WithCancel(context.Background())
			extra = &busListener{ctx: ctx, cancel: cancel}
			// registering must not wait for the send in progress (the sender is parked outside every bus lock)
			tl := vk.Go(func() { extra.ch = bus.Listen(ctx) })
			vk.Quiesce()
			if !tl.Done() {
				r.Violation("C10/stall/listen-during-send/"+key, fmt.Sprintf("%+v: Listen has not returned at the quiescent point while a Send is held up in the middle of its deliveries: a new subscriber waits for the slowest listener of the send in progress\n%s", s, vk.DescribeGs(vk.LibraryGoroutines(vk.Goroutines(), base))), s)
				park.Release()
			}
			tl.Wait()
			extra.consume()
		}
		vk.Quiesce()
		park.Release()
		vk.Quiesce()
		desc := fmt.Sprintf("%+v", s)
		if !ts.Done() {
			r.Violation("C10/stall/"+key, desc+": Send has not returned at the quiescent point although every live listener keeps receiving\n"+vk.DescribeGs(vk.LibraryGoroutines(vk.Goroutines(), base)), s)
		}
		for _, p := range stopParks {
			p.Release()
		}
		// a second send: must reach exactly the listeners that are still live, exactly once
		ts.Wait()
		bus.Send(sendCtx, "e2")
		vk.Quiesce()
		cancelled := map[int]bool{}
		for _, ci := range s.Cancel {
			cancelled[ci] = true
		}
		for k, l := range ls {
			l.mu.Lock()
			got := append([]string{}, l.got...)
			l.mu.Unlock()
			n1, n2 := count(got, "e1"), count(got, "e2")
			if cancelled[k] {
				if !l.isClosed() {
					r.Violation("C10/not-closed/"+key, fmt.Sprintf("%s: listener %d was cancelled but its channel is still open at the quiescent point", desc, k), s)
				}
				if n1 > 1 || n2 > 0 && !s.StopPark {
					r.Violation("C10/bus-duplicate/"+key, fmt.Sprintf("%s: cancelled listener %d received %v", desc, k, got), s)
				}
				continue
			}
			if n1 != 1 || n2 != 1 || len(got) != 2 || got[0] != "e1" {
				cl := "bus-missing"
				if n1 > 1 || n2 > 1 {
					cl = "bus-duplicate"
				} else if len(got) == 2 {
					cl = "bus-order"
				}
				r.Violation("C10/"+cl+"/"+key, fmt.Sprintf("%s: listener %d was live for both sends and received %v", desc, k, got), s)
			}
		}
		if !okSend {
			r.Violation("C10/send-result/"+key, desc+": Send reported failure although its own context was never cancelled", s)
		}
		for _, l := range ls {
			l.cancel()
		}
		if extra != nil {
			extra.cancel()
		}
		r.Eval(1)
		r.Count("bus-forced-scenarios", 1)
		if reached {
			r.Distinct("busforced:" + desc)
		} else {
			r.Count("bus-forced-window-not-reached", 1)
		}
		finalCheck(r, key, base, desc, s)
		r.Unguard()
		if r.WantSample("bus-forced") {
			r.Sample("bus-forced", s)
		}
	}
}

func count(ss []string, x string) int {
	n := 0
	for _, s := range ss {
		if s == x {
			n++
		}
	}
	return n
}

func busStress(r *vk.Run) {
	n := r.Pick(8000, 200000)
	sched := vk.NewSched()
	defer sched.Close()
	for i := 0; i < n; i++ {
		if !r.Mine(i) {
			continue
		}
		if !r.Guard("C10/panic/bus/stress", map[string]any{"case": i}) {
			continue
		}
		rng := r.CaseRand("c10-bus", i)
		base := baseline()
		sched.Stress(rng.Uint64() | 1)
		var bus minibus.Bus
		var clock atomic.Int64
		nl := rng.Range(0, 6)
		ls := make([]*busListener, nl)
		var wg sync.WaitGroup
		type sendRec struct {
			tag       string
			call, ret int64
		}
		var smu sync.Mutex
		var sends []sendRec
		// listeners come and go at random instants
		for k := 0; k < nl; k++ {
			k := k
			lr := rng.Fork()
			wg.Add(1)
			go func() {
				defer wg.Done()
				for y := lr.Intn(20); y > 0; y-- {
					runtime.Gosched()
				}
				ctx, cancel := context.WithCancel(context.Background())
				l := &busListener{ctx: ctx, cancel: cancel}
				if lr.Chance(1, 8) {
					cancel() // already cancelled before listening
					l.cancelAt = clock.Add(1)
				}
				l.ch = bus.Listen(ctx)
				l.listenAt = clock.Add(1)
				l.consume()
				smu.Lock()
				ls[k] = l
				smu.Unlock()
				if lr.Chance(2, 3) {
					for y := lr.Intn(60); y > 0; y-- {
						runtime.Gosched()
					}
					if l.cancelAt == 0 {
						l.cancelAt = clock.Add(1)
					}
					cancel()
				}
			}()
		}
		ns := rng.Range(1, 3)
		for p := 0; p < ns; p++ {
			p := p
			pr := rng.Fork()
			wg.Add(1)
			go func() {
				defer wg.Done()
				for k := 0; k < 6; k++ {
					tag := fmt.Sprintf("s%d.%d", p, k)
					c := clock.Add(1)
					bus.Send(context.Background(), tag)
					rt := clock.Add(1)
					smu.Lock()
					sends = append(sends, sendRec{tag, c, rt})
					smu.Unlock()
					for y := pr.Intn(4); y > 0; y-- {
						runtime.Gosched()
					}
				}
			}()
		}
		wg.Wait()
		sched.Stress(0)
		vk.Quiesce()
		r.Eval(1)
		r.Count("stress-scenarios", 1)
		r.Count("bus-stress-scenarios", 1)
		r.Distinct(fmt.Sprintf("busstress:%d:%d", nl, ns))
		for k, l := range ls {
			if l == nil {
				continue
			}
			l.mu.Lock()
			got := append([]string{}, l.got...)
			l.mu.Unlock()
			cancelAt := l.cancelAt
			for _, s := range sends {
				live := l.listenAt < s.call && (cancelAt == 0 || s.ret < cancelAt)
				c := count(got, s.tag)
				if live && c != 1 {
					cl := "bus-missing"
					if c > 1 {
						cl = "bus-duplicate"
					}
					r.Violation("C10/"+cl+"/bus/stress", fmt.Sprintf("case %d: listener %d was live for the whole send of %s (listen@%d send[%d,%d] cancel@%d) and received it %d times: %v", i, k, s.tag, l.listenAt, s.call, s.ret, cancelAt, c, got), map[string]any{"case": i})
				}
				if c > 1 {
					r.Violation("C10/bus-duplicate/bus/stress", fmt.Sprintf("case %d: listener %d received %s %d times", i, k, s.tag, c), map[string]any{"case": i})
				}
			}
			// per-sender order
			last := map[string]int{}
			for _, g := range got {
				var p, kk int
				fmt.Sscanf(g, "s%d.%d", &p, &kk)
				key := fmt.Sprint(p)
				if v, ok := last[key]; ok && kk <= v {
					r.Violation("C10/bus-order/bus/stress", fmt.Sprintf("case %d: listener %d received sender %d's events out of order: %v", i, k, p, got), map[string]any{"case": i})
				}
				last[key] = kk
			}
			if cancelAt != 0 && !l.isClosed() {
				r.Violation("C10/not-closed/bus/stress", fmt.Sprintf("case %d: listener %d was cancelled but its channel is open at the quiescent point", i, k), map[string]any{"case": i})
			}
			l.cancel()
		}
		finalCheck(r, "bus/stress", base, fmt.Sprintf("case %d", i), map[string]any{"case": i})
		r.Unguard()
	}
}

// ---------------------------------------------------------------------------------------------------------
// resource level

type subOpts struct {
	Kind        string `json:"kind"` // value | pull | pullid
	BP          bool   `json:"bp"`
	UpdatesOnly bool   `json:"updatesOnly"`
	// consumer behaviour
	StopAfter int `json:"stopAfter"` // stop receiving after this many events (-1 = never stop)
}

func (o subOpts) String() string {
	return fmt.Sprintf("%s/bp=%v/uo=%v/stop=%d", o.Kind, o.BP, o.UpdatesOnly, o.StopAfter)
}

func (o subOpts) class() string {
	m := "lossy"
	if o.BP {
		m = "bp"
	}
	return o.Kind + "/" + m
}

type rsub struct {
	o       subOpts
	cancel  context.CancelFunc
	colCh   <-chan *resource.CollectionChange
	valCh   <-chan *resource.ValueChange
	mu      sync.Mutex
	n       int
	closed  bool
	stopped atomic.Bool
	resume  chan struct{}
}

func (s *rsub) consume() {
	go func() {
		for {
			s.mu.Lock()
			stop := s.o.StopAfter >= 0 && s.n >= s.o.StopAfter
			s.mu.Unlock()
			if stop && !s.stopped.Load() {
				s.stopped.Store(true)
				<-s.resume // the consumer stops receiving until told to drain
			}
			var ok bool
			if s.colCh != nil {
				_, ok = <-s.colCh
			} else {
				_, ok = <-s.valCh
			}
			s.mu.Lock()
			if ok {
				s.n++
			} else {
				s.closed = true
			}
			s.mu.Unlock()
			if !ok {
				return
			}
		}
	}()
}

func (s *rsub) isClosed() bool { s.mu.Lock(); defer s.mu.Unlock(); return s.closed }

type world struct {
	val *resource.Value
	col *resource.Collection
	n   atomic.Int64
}

func newWorld() *world {
	return &world{
		val: resource.NewValue(resource.WithClock(clk{}), resource.WithInitialValue(&tat{DefaultString: "init"})),
		col: resource.NewCollection(resource.WithClock(clk{}), resource.WithInitialRecord("a", &tat{DefaultString: "a-init"}), resource.WithInitialRecord("b", &tat{DefaultString: "b-init"})),
	}
}

func (w *world) subscribe(ctx context.Context, cancel context.CancelFunc, o subOpts) *rsub {
	s := &rsub{o: o, cancel: cancel, resume: make(chan struct{})}
	ro := []resource.ReadOption{resource.WithBackpressure(o.BP), resource.WithUpdatesOnly(o.UpdatesOnly)}
	switch o.Kind {
	case "value":
		s.valCh = w.val.Pull(ctx, ro...)
	case "pull":
		s.colCh = w.col.Pull(ctx, ro...)
	case "pullid":
		s.valCh = w.col.PullID(ctx, "a", ro...)
	}
	s.consume()
	return s
}

func (w *world) write(kind string, rng *vk.Rand) {
	v := &tat{DefaultString: fmt.Sprintf("w%d", w.n.Add(1))}
	switch kind {
	case "value":
		w.val.Set(v)
	case "pull", "pullid":
		switch rng.Intn(4) {
		case 0:
			w.col.Update("a", v, resource.WithCreateIfAbsent())
		case 1:
			w.col.Update("b", v, resource.WithCreateIfAbsent())
		case 2:
			w.col.Delete("b", resource.WithAllowMissing(true))
		default:
			w.col.Update("a", v, resource.WithCreateIfAbsent())
		}
	}
}

// settle cancels what is left, lets stopped consumers drain, and checks closure, writers and leaks.
func settle(r *vk.Run, key string, base map[int]bool, subs []*rsub, writers []*vk.Task, desc string, replay any, alreadyCancelled map[*rsub]bool) {
	// first: everything that was cancelled must close without any further help, and writers must not be stalled by it
	gs, ok := r.MustQuiesce("c10-settle1")
	if !ok {
		return
	}
	anyStoppedLive := false
	for _, s := range subs {
		if !alreadyCancelled[s] && s.o.BP && s.stopped.Load() {
			anyStoppedLive = true // a live backpressured consumer that stopped receiving legitimately blocks writers
		}
	}
	if !anyStoppedLive {
		for i, t := range writers {
			if !t.Done() {
				r.Violation("C10/stall/"+key, fmt.Sprintf("%s: writer %d has not returned at the quiescent point although every remaining subscriber keeps receiving\n%s", desc, i, vk.DescribeGs(vk.LibraryGoroutines(gs, base))), replay)
				break
			}
		}
	}
	for _, s := range subs {
		s.cancel()
	}
	// every goroutine started for a cancelled subscription must terminate even if its consumer never reads again
	gs2, ok := r.MustQuiesce("c10-settle-cancelled")
	if !ok {
		return
	}
	var stuck []vk.G
	for _, g := range vk.LibraryGoroutines(gs2, base) {
		if !g.Has("resource.timeoutAlarm") {
			stuck = append(stuck, g)
		}
	}
	if len(stuck) > 0 {
		r.Violation("C10/leak-until-drained/"+key, fmt.Sprintf("%s: every subscription is cancelled but goroutines started by the library are still alive while the consumers are not reading:\n%s", desc, vk.DescribeGs(stuck)), replay)
	}
	for _, s := range subs {
		close(s.resume) // drain: after the cancel the channel must be (or become) closed
	}
	if _, ok := r.MustQuiesce("c10-settle2"); !ok {
		return
	}
	for i, t := range writers {
		if !t.Done() {
			r.Violation("C10/stall-after-cancel/"+key, fmt.Sprintf("%s: writer %d has still not returned after every subscription was cancelled", desc, i), replay)
		}
	}
	for i, s := range subs {
		if !s.isClosed() {
			r.Violation("C10/not-closed/"+key, fmt.Sprintf("%s: subscription %d (%v) was cancelled but its channel is not closed at the quiescent point", desc, i, s.o), replay)
		}
	}
	finalCheck(r, key, base, desc, replay)
}

func resForced(r *vk.Run) {
	sched := vk.NewSched()
	defer sched.Close()
	type sc struct {
		Sub      subOpts `json:"sub"`
		Window   string  `json:"window"`
		Who      string  `json:"who"`   // which goroutine is parked: writer | subscriber | stopper
		Other    bool    `json:"other"` // a second, healthy subscriber is present (must not be stalled)
		Consumer string  `json:"consumer"`
	}
	var scs []sc
	for _, kind := range []string{"value", "pull", "pullid"} {
		subWin := "col.sub.afterSnapshot"
		pubWin := "col.update.beforePublish"
		if kind == "value" {
			subWin, pubWin = "value.sub.afterSnapshot", "value.set.beforePublish"
		}
		for _, bp := range []bool{false, true} {
			for _, uo := range []bool{false, true} {
				for _, other := range []bool{false, true} {
					for _, stop := range []int{-1, 0, 1} {
						o := subOpts{Kind: kind, BP: bp, UpdatesOnly: uo, StopAfter: stop}
						for _, win := range []string{"bus.send.afterSnapshot", "bus.send.beforeListener", pubWin, "gau.beforeLock"} {
							scs = append(scs, sc{Sub: o, Window: win, Who: "writer", Other: other})
						}
						for _, win := range []string{"bus.listen.beforeRegister", subWin} {
							scs = append(scs, sc{Sub: o, Window: win, Who: "subscriber", Other: other})
						}
						scs = append(scs, sc{Sub: o, Window: "bus.listener.stop", Who: "stopper", Other: other})
					}
				}
			}
		}
	}
	for i, s := range scs {
		if !r.Mine(i) {
			continue
		}
		key := fmt.Sprintf("%s@%s/%s", s.Who, s.Window, s.Sub.class())
		if !r.Guard("C10/panic/"+key, s) {
			continue
		}
		desc := fmt.Sprintf("%+v", s)
		base := baseline()
		w := newWorld()
		rng := r.CaseRand("c10-forced", i)
		var subs []*rsub
		var writers []*vk.Task
		cancelled := map[*rsub]bool{}
		if s.Other {
			ctx, cancel := context.WithCancel(context.Background())
			subs = append(subs, w.subscribe(ctx, cancel, subOpts{Kind: s.Sub.Kind, BP: true, StopAfter: -1}))
		}
		reached := false
		switch s.Who {
		case "writer":
			ctx, cancel := context.WithCancel(context.Background())
			victim := w.subscribe(ctx, cancel, s.Sub)
			subs = append(subs, victim)
			vk.Quiesce()
			p := sched.ParkAt(s.Window, nil)
			writers = append(writers, vk.Go(func() { w.write(s.Sub.Kind, rng) }))
			vk.Quiesce()
			reached = p.Arrived()
			cancel() // cancel while the writer sits inside the window
			cancelled[victim] = true
			vk.Quiesce()
			p.Release()
			writers = append(writers, vk.Go(func() { w.write(s.Sub.Kind, rng) }))
		case "subscriber":
			p := sched.ParkAt(s.Window, nil)
			ctx, cancel := context.WithCancel(context.Background())
			var victim *rsub
			ts := vk.Go(func() { victim = w.subscribe(ctx, cancel, s.Sub) })
			vk.Quiesce()
			reached = p.Arrived()
			cancel() // cancel while the subscriber is between snapshot and registration
			writers = append(writers, vk.Go(func() { w.write(s.Sub.Kind, rng) }))
			vk.Quiesce()
			p.Release()
			ts.Wait()
			subs = append(subs, victim)
			cancelled[victim] = true
			writers = append(writers, vk.Go(func() { w.write(s.Sub.Kind, rng) }))
		case "stopper":
			ctx, cancel := context.WithCancel(context.Background())
			victim := w.subscribe(ctx, cancel, s.Sub)
			subs = append(subs, victim)
			vk.Quiesce()
			p := sched.ParkAt("bus.listener.stop", nil)
			cancel() // the goroutine that closes the listener is parked just before it does so
			cancelled[victim] = true
			vk.Quiesce()
			reached = p.Arrived()
			writers = append(writers, vk.Go(func() { w.write(s.Sub.Kind, rng) }))
			vk.Quiesce()
			p.Release()
			writers = append(writers, vk.Go(func() { w.write(s.Sub.Kind, rng) }))
		}
		r.Eval(1)
		r.Count("resource-forced-scenarios", 1)
		if reached {
			r.Distinct("resforced:" + desc)
		} else {
			r.Count("resource-forced-window-not-reached", 1)
		}
		settle(r, key, base, subs, writers, desc, s, cancelled)
		r.Unguard()
		if r.WantSample("resource-forced") {
			r.Sample("resource-forced", s)
		}
	}
}

func resStress(r *vk.Run) {
	n := r.Pick(1500, 400000)
	sched := vk.NewSched()
	defer sched.Close()
	for i := 0; i < n; i++ {
		if !r.Mine(i) {
			continue
		}
		rng := r.CaseRand("c10-stress", i)
		kind := []string{"value", "pull", "pullid"}[rng.Intn(3)]
		if !r.Guard("C10/panic/stress/"+kind, map[string]any{"case": i}) {
			continue
		}
		base := baseline()
		w := newWorld()
		sched.Stress(rng.Uint64() | 1)
		ns := rng.Range(0, 8)
		nw := rng.Range(0, 3)
		var subs []*rsub
		var smu sync.Mutex
		cancelled := map[*rsub]bool{}
		var opts []string
		var tasks, writers []*vk.Task
		for k := 0; k < ns; k++ {
			o := subOpts{Kind: kind, BP: rng.Bool(), UpdatesOnly: rng.Bool(), StopAfter: -1}
			if rng.Chance(1, 4) {
				o.StopAfter = rng.Intn(3)
			}
			opts = append(opts, o.String())
			sr := rng.Fork()
			pre := rng.Chance(1, 8)
			willCancel := rng.Chance(2, 3)
			tasks = append(tasks, vk.Go(func() {
				for y := sr.Intn(30); y > 0; y-- {
					runtime.Gosched()
				}
				ctx, cancel := context.WithCancel(context.Background())
				if pre {
					cancel()
				}
				s := w.subscribe(ctx, cancel, o)
				smu.Lock()
				subs = append(subs, s)
				if pre {
					cancelled[s] = true
				}
				smu.Unlock()
				if willCancel {
					for y := sr.Intn(80); y > 0; y-- {
						runtime.Gosched()
					}
					cancel()
					smu.Lock()
					cancelled[s] = true
					smu.Unlock()
				}
			}))
		}
		for p := 0; p < nw; p++ {
			pr := rng.Fork()
			writers = append(writers, vk.Go(func() {
				for k := 0; k < 6; k++ {
					w.write(kind, pr)
					for y := pr.Intn(4); y > 0; y-- {
						runtime.Gosched()
					}
				}
			}))
		}
		// the subscriber tasks only subscribe and cancel: none of that may wait for a writer or a slow subscriber, so
		// at a quiescent point (writers may legitimately be waiting for a stopped backpressured consumer) all are done
		stuck := false
		if gs, ok := r.MustQuiesce("c10-stress-tasks"); ok {
			for _, t := range tasks {
				if !t.Done() {
					stuck = true
				}
			}
			if stuck {
				sort.Strings(opts)
				r.Violation("C10/stall/subscribe-or-cancel/stress/"+kind, fmt.Sprintf("stress case %d: %d writers, subscribers %v: a goroutine that only subscribes and cancels has not finished at the quiescent point\n%s", i, nw, opts, vk.DescribeGs(vk.LibraryGoroutines(gs, base))), map[string]any{"case": i})
				return // the stuck goroutines stay: later quiescence checks of this worker would be disturbed
			}
		} else {
			return
		}
		for _, t := range tasks {
			t.Wait()
		}
		sched.Stress(0)
		sort.Strings(opts)
		desc := fmt.Sprintf("stress case %d: %d writers, subscribers %v", i, nw, opts)
		r.Eval(1)
		r.Count("stress-scenarios", 1)
		r.Distinct(fmt.Sprintf("resstress:%s:%d:%s", kind, nw, strings.Join(opts, ",")))
		smu.Lock()
		ss := append([]*rsub{}, subs...)
		cc := map[*rsub]bool{}
		for k, v := range cancelled {
			cc[k] = v
		}
		smu.Unlock()
		settle(r, "stress/"+kind, base, ss, writers, desc, map[string]any{"case": i}, cc)
		r.Unguard()
	}
	// PullID ends when its item is removed, under any timing of the removal
	m := r.Pick(300, 100000)
	for i := 0; i < m; i++ {
		if !r.Mine(i) {
			continue
		}
		if !r.Guard("C10/panic/pullid-removal", map[string]any{"case": i}) {
			continue
		}
		rng := r.CaseRand("c10-pullid", i)
		base := baseline()
		w := newWorld()
		// a third of the collections fold the case of ids: the writer then names the item in another spelling than the
		// subscriber did, it is the same item all the same
		delID := "a"
		fold, nodup := rng.Chance(1, 3), rng.Chance(1, 3)
		if fold || nodup {
			copts := []resource.Option{resource.WithClock(clk{}), resource.WithInitialRecord("a", &tat{DefaultString: "a-init"}), resource.WithInitialRecord("b", &tat{DefaultString: "b-init"})}
			if fold {
				copts = append(copts, resource.WithIDInterceptor(strings.ToLower))
				delID = "A"
				r.Count("pullid-removal-scenarios-with-case-folding-ids", 1)
			}
			if nodup {
				// a third of the collections suppress duplicates: a removal is news whatever the subscriber was sent before
				copts = append(copts, resource.WithNoDuplicates())
				r.Count("pullid-removal-scenarios-with-equivalence", 1)
			}
			w.col = resource.NewCollection(copts...)
		}
		sched.Stress(rng.Uint64() | 1)
		ctx, cancel := context.WithCancel(context.Background())
		o := subOpts{Kind: "pullid", BP: rng.Bool(), UpdatesOnly: rng.Bool(), StopAfter: -1}
		s := w.subscribe(ctx, cancel, o)
		var ws []*vk.Task
		ws = append(ws, vk.Go(func() {
			for k := rng.Intn(4); k > 0; k-- {
				w.col.Update(delID, &tat{DefaultString: fmt.Sprint("u", k)})
			}
			w.col.Delete(delID)
			w.col.Update("b", &tat{DefaultString: "after"}, resource.WithCreateIfAbsent())
		}))
		ws[0].Wait()
		sched.Stress(0)
		gs, ok := r.MustQuiesce("c10-pullid")
		if !ok {
			return
		}
		r.Eval(1)
		r.Count("stress-scenarios", 1)
		r.Count("pullid-removal-scenarios", 1)
		r.Distinct(fmt.Sprintf("pullid:%v", o))
		if !s.isClosed() {
			r.Violation("C10/pullid-not-ended/"+o.class(), fmt.Sprintf("case %d: item a was removed but the PullID channel (%v) is still open at the quiescent point", i, o), map[string]any{"case": i})
		}
		if leaked := vk.LibraryGoroutines(gs, base); len(leaked) > 0 {
			var real []vk.G
			for _, g := range leaked {
				if !g.Has("resource.timeoutAlarm") {
					real = append(real, g)
				}
			}
			if len(real) > 0 {
				r.Violation("C10/leak/pullid-removal/"+o.class(), fmt.Sprintf("case %d: PullID ended by removal (context never cancelled) but library goroutines remain:\n%s", i, vk.DescribeGs(real)), map[string]any{"case": i})
			}
		}
		cancel()
		finalCheck(r, "pullid-removal", base, fmt.Sprintf("case %d", i), map[string]any{"case": i})
		r.Unguard()
	}
}

// pullIDRemovalWhilePaused: the item is created AFTER the single-item subscription was opened, the consumer is not
// receiving while the item and two others are created and the item is deleted again; then it receives. Whatever the
// lossy stage merged meanwhile, the item was removed: the PullID channel closes and its goroutines end, without
// the context ever being cancelled.
func pullIDRemovalWhilePaused(r *vk.Run) {
	idx := 0
	for _, bp := range []bool{false, true} {
		for _, uo := range []bool{false, true} {
			for _, pauseAfter := range []int{0, 1, 2} {
				idx++
				if !r.Mine(idx) {
					continue
				}
				if !r.Guard("C10/panic/pullid-removal-paused", map[string]any{"bp": bp, "updatesOnly": uo}) {
					continue
				}
				base := baseline()
				copts := []resource.Option{resource.WithClock(clk{}), resource.WithInitialRecord("b", &tat{DefaultString: "b-init"})}
				existing := pauseAfter == 2 // second history: x exists already; it is deleted, re-created and deleted again
				if existing {
					copts = append(copts, resource.WithInitialRecord("x", &tat{DefaultString: "x0"}))
					pauseAfter = 1
					if uo {
						pauseAfter = 0
					}
				}
				col := resource.NewCollection(copts...)
				ctx, cancel := context.WithCancel(context.Background())
				o := subOpts{Kind: "pullid", BP: bp, UpdatesOnly: uo, StopAfter: pauseAfter}
				s := &rsub{o: o, cancel: cancel, resume: make(chan struct{})}
				s.valCh = col.PullID(ctx, "x", resource.WithBackpressure(bp), resource.WithUpdatesOnly(uo))
				s.consume()
				vk.Quiesce()
				tw := vk.Go(func() {
					if existing {
						// two updates first: they occupy the two hand-over stages, what follows meets in the lossy stage
						col.Update("x", &tat{DefaultString: "x0a"})
						col.Update("x", &tat{DefaultString: "x0b"})
						col.Delete("x")
						col.Add("x", &tat{DefaultString: "x1"})
						col.Delete("x")
						col.Update("b", &tat{DefaultString: "after"})
						return
					}
					col.Add("x", &tat{DefaultString: "x1"})
					col.Add("y", &tat{DefaultString: "y1"})
					col.Add("z", &tat{DefaultString: "z1"})
					col.Delete("x")
					col.Update("b", &tat{DefaultString: "after"})
				})
				vk.Quiesce()
				close(s.resume) // the consumer receives again
				gs, ok := r.MustQuiesce("c10-pullid-paused")
				if !ok {
					cancel()
					return
				}
				r.Eval(1)
				r.Count("pullid-removal-while-paused-scenarios", 1)
				r.Distinct(fmt.Sprintf("pullidpaused:%v:%v:%d:%v", bp, uo, pauseAfter, existing))
				desc := fmt.Sprintf("PullID(x) (%v) opened before x exists; the consumer pauses after %d event(s) while Add(x), Add(y), Add(z), Delete(x), Update(b) are made, then receives again", o, pauseAfter)
				if existing {
					desc = fmt.Sprintf("PullID(x) (%v) opened on the existing item x; the consumer pauses after %d event(s) while Update(x), Update(x), Delete(x), Add(x), Delete(x), Update(b) are made, then receives again", o, pauseAfter)
				}
				replay := map[string]any{"bp": bp, "updatesOnly": uo, "pauseAfter": pauseAfter}
				if !tw.Done() {
					r.Violation("C10/stall/pullid-removal-paused/"+o.class(), desc+": the writer has not returned at the quiescent point\n"+vk.DescribeGs(vk.LibraryGoroutines(gs, base)), replay)
					cancel()
					return
				}
				if !s.isClosed() {
					r.Violation("C10/pullid-not-ended/paused/"+o.class(), desc+": item x was removed but the PullID channel is still open at the quiescent point", replay)
				} else if leaked := vk.LibraryGoroutines(gs, base); len(leaked) > 0 {
					var real []vk.G
					for _, g := range leaked {
						if !g.Has("resource.timeoutAlarm") {
							real = append(real, g)
						}
					}
					if len(real) > 0 {
						r.Violation("C10/leak/pullid-removal-paused/"+o.class(), desc+": PullID ended by removal (context never cancelled) but library goroutines remain:\n"+vk.DescribeGs(real), replay)
					}
				}
				cancel()
				finalCheck(r, "pullid-removal-paused", base, desc, replay)
				r.Unguard()
			}
		}
	}
}

var _ = proto.Clone
